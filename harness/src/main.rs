//! enrh: conformance harness for the enr crate.
//!   enrh exec <scripts.ndjson> <trace.ndjson>   run scripts against the real library, record events
//!   enrh keys                                   print the fixed test keys (public keys, node ids) as JSON
//!   enrh mk                                     stdin: one BYTESPEC per line -> stdout: one byte array per line

mod exec;
mod indep;
mod keys;

use serde_json::{json, Value};
use std::io::{BufRead, BufReader, BufWriter, Write};
use std::sync::atomic::Ordering;

fn main() {
    let args: Vec<String> = std::env::args().collect();
    if args.len() < 2 {
        eprintln!("usage: enrh exec|keys|mk ...");
        std::process::exit(2);
    }
    indep::selfcheck();
    match args[1].as_str() {
        "keys" => {
            let mut m = serde_json::Map::new();
            // the fixed test keys, plus any further signer names given on the command line (k:<hex>, e:<hex>)
            let mut names: Vec<String> = ["k1", "k2", "k3", "k4", "e1", "e2"].iter().map(|s| s.to_string()).collect();
            names.extend(args.iter().skip(2).cloned());
            for n in names.iter().map(|s| s.as_str()) {
                let (s, pk) = keys::indep_pub(n).unwrap();
                let nid = if s == 'k' { indep::secp_nid(&pk).unwrap() } else { indep::ed_nid(&pk).unwrap() };
                let xy = if s == 'k' {
                    enr::secp256k1::PublicKey::from_slice(&pk).map(|p| p.serialize_uncompressed()[1..].to_vec()).unwrap_or_default()
                } else {
                    vec![]
                };
                m.insert(n.to_string(), json!({"scheme": if s == 'k' {"secp"} else {"ed"}, "pk": indep::bytes_json(&pk), "nid": indep::bytes_json(&nid), "xy": indep::bytes_json(&xy)}));
            }
            // small scalars whose public key's x coordinate starts with a byte that looks like a SEC1 tag / boundary
            let mut special = serde_json::Map::new();
            for want in [0x00u8, 0x02, 0x03, 0x04, 0x06, 0x07, 0xff] {
                for k in 1u32..20000 {
                    let mut a = [0u8; 32];
                    a[28..].copy_from_slice(&k.to_be_bytes());
                    let pk = indep::secp_pub(&a);
                    if pk[1] == want {
                        special.insert(format!("{:02x}", want), json!(indep::hex(&a)));
                        break;
                    }
                }
            }
            m.insert("special_x".to_string(), Value::Object(special));
            println!("{}", Value::Object(m));
        }
        "mk" => {
            let stdin = std::io::stdin();
            let mut out = BufWriter::new(std::io::stdout());
            for line in stdin.lock().lines() {
                let line = line.unwrap();
                if line.trim().is_empty() {
                    continue;
                }
                let v: Value = serde_json::from_str(&line).expect("json");
                let b = exec::mk_bytes(&v);
                writeln!(out, "{}", indep::bytes_json(&b)).unwrap();
            }
        }
        "exec" => {
            if args.len() < 4 {
                eprintln!("usage: enrh exec <scripts.ndjson> <trace.ndjson>");
                std::process::exit(2);
            }
            // silence panic messages of the code under test (panics are data, recorded in the trace)
            if std::env::var("ENRH_LOUD").is_err() { std::panic::set_hook(Box::new(|_| {})); }
            let inp = BufReader::new(std::fs::File::open(&args[2]).expect("open scripts"));
            let outp = BufWriter::with_capacity(1 << 20, std::fs::File::create(&args[3]).expect("create trace"));
            let hang_path = format!("{}.hang", &args[3]);
            let _ = std::fs::remove_file(&hang_path);
            // watchdog: a step running for more than HANG_MS is reported as a hang and the process exits with 3
            let hp = hang_path.clone();
            std::thread::spawn(move || loop {
                std::thread::sleep(std::time::Duration::from_millis(200));
                let st = exec::STEP_STARTED_MS.load(Ordering::SeqCst);
                if st != 0 {
                    let now = std::time::SystemTime::now().duration_since(std::time::UNIX_EPOCH).unwrap().as_millis() as u64;
                    if now > st + 20_000 {
                        let id = exec::STEP_ID.load(Ordering::SeqCst);
                        let _ = std::fs::write(&hp, format!("{{\"hang_step\":{}}}\n", id));
                        std::process::exit(3);
                    }
                }
            });
            let mut ex = exec::Exec { out: outp, handles: Default::default(), events: 0 };
            let mut n = 0u64;
            for line in inp.lines() {
                let line = line.unwrap();
                if line.trim().is_empty() {
                    continue;
                }
                let v: Value = serde_json::from_str(&line).expect("script json");
                let sid = v.get("sid").cloned().unwrap_or(json!(n));
                n += 1;
                // a harness-level panic (bad script) must not be mistaken for a library panic: abort loudly
                let r = std::panic::catch_unwind(std::panic::AssertUnwindSafe(|| ex.run_script(&sid, &v)));
                if r.is_err() {
                    eprintln!("enrh: harness error in script {}", sid);
                    std::process::exit(2);
                }
            }
            ex.out.flush().unwrap();
            eprintln!("enrh: {} scripts, {} events", n, ex.events);
        }
        _ => {
            eprintln!("unknown subcommand");
            std::process::exit(2);
        }
    }
}
