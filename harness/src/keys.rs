//! Test keys, key-type abstraction, and the harness-defined key types (tracing / fault-injecting wrapper,
//! variable-length-signature scheme). The latter need the `enr_verif` hook (SigningError export).

use crate::indep;
use alloy_rlp::Error as DecoderError;
use bytes::Bytes;
use enr::{ed25519_dalek as ed, k256, secp256k1 as libsecp};
use enr::{CombinedKey, EnrKey, EnrPublicKey, SigningError};
use std::collections::BTreeMap;
use std::sync::atomic::{AtomicUsize, Ordering};
use std::sync::Mutex;

pub const K1: &str = "b71c71a67e1177ad4e901695e1b4b9ee17ae16c6668d313eac2f96dbcda3f291";
pub const K2: &str = "1f0e1d2c3b4a59687786a5b4c3d2e1f00112233445566778899aabbccddeeff0";
pub const K3: &str = "00000000000000000000000000000000000000000000000000000000000000a7";
pub const E1: &str = "9d61b19deffd5a60ba844af492ec2cc44449c5697b326919703bac031cae7f60";
pub const E2: &str = "4ccd089b28ff96da9db6c346ec114e0f5b8a319f35aba624da8cf6ed4fb8a6fb";

/// resolve a signer name to (scheme, secret)
pub fn secret_of(name: &str) -> Option<(char, [u8; 32])> {
    let (scheme, hexs) = match name {
        "k1" => ('k', K1.to_string()),
        "k2" => ('k', K2.to_string()),
        "k3" => ('k', K3.to_string()),
        "k4" => ('k', even_y_secret()),
        "e1" => ('e', E1.to_string()),
        "e2" => ('e', E2.to_string()),
        _ => {
            if let Some(h) = name.strip_prefix("k:") {
                ('k', h.to_string())
            } else if let Some(h) = name.strip_prefix("e:") {
                ('e', h.to_string())
            } else {
                return None;
            }
        }
    };
    if hexs.len() != 64 {
        return None;
    }
    let v = indep::unhex(&hexs);
    let mut a = [0u8; 32];
    a.copy_from_slice(&v);
    Some((scheme, a))
}

/// a fixed secret whose public key has an EVEN y coordinate (compressed tag 02); k1..k3 all have odd y
fn even_y_secret() -> String {
    for i in 0u32..1000 {
        let mut seed = b"enr-verif-k4".to_vec();
        seed.extend_from_slice(&i.to_be_bytes());
        let a = indep::keccak256(&seed);
        if libsecp::SecretKey::from_slice(&a).is_ok() && indep::secp_pub(&a)[0] == 2 {
            return indep::hex(&a);
        }
    }
    unreachable!()
}

/// independent public key bytes of a named signer
pub fn indep_pub(name: &str) -> Option<(char, Vec<u8>)> {
    let (s, a) = secret_of(name)?;
    Some((s, if s == 'k' { indep::secp_pub(&a) } else { indep::ed_pub(&a) }))
}

pub fn indep_sign(name: &str, msg: &[u8]) -> Option<Vec<u8>> {
    let (s, a) = secret_of(name)?;
    Some(if s == 'k' { indep::secp_sign(&a, msg) } else { indep::ed_sign(&a, msg) })
}

// ---- sign log / fault injection (single-threaded harness; globals keep the key types Send + Sync) ----

pub static SIGN_COUNT: AtomicUsize = AtomicUsize::new(0);
pub static FAULT_AT: AtomicUsize = AtomicUsize::new(0);
pub static SIGN_LOG: Mutex<Vec<(usize, bool)>> = Mutex::new(Vec::new());

pub fn reset_signs(fault_at: usize) {
    SIGN_COUNT.store(0, Ordering::SeqCst);
    FAULT_AT.store(fault_at, Ordering::SeqCst);
    SIGN_LOG.lock().unwrap_or_else(|e| e.into_inner()).clear();
}

pub fn take_signs() -> Vec<(usize, bool)> {
    FAULT_AT.store(0, Ordering::SeqCst);
    std::mem::take(&mut *SIGN_LOG.lock().unwrap_or_else(|e| e.into_inner()))
}

fn logged_sign<F: FnOnce() -> Result<Vec<u8>, SigningError>>(f: F) -> Result<Vec<u8>, SigningError> {
    let n = SIGN_COUNT.fetch_add(1, Ordering::SeqCst) + 1;
    if FAULT_AT.load(Ordering::SeqCst) == n {
        SIGN_LOG.lock().unwrap_or_else(|e| e.into_inner()).push((0, true));
        return Err(SigningError::verif_new("injected signing fault"));
    }
    let r = f();
    match &r {
        Ok(s) => SIGN_LOG.lock().unwrap_or_else(|e| e.into_inner()).push((s.len(), false)),
        Err(_) => SIGN_LOG.lock().unwrap_or_else(|e| e.into_inner()).push((0, true)),
    }
    r
}

/// Key-type abstraction used by the generic executor.
pub trait TKey: EnrKey + Sized {
    const KT: &'static str;
    /// does this key type log its signing calls / honour injected faults
    const TRACED: bool;
    fn named(name: &str) -> Option<Self>;
    fn pub_bytes(pk: &Self::PublicKey) -> Vec<u8> {
        pk.encode().as_ref().to_vec()
    }
}

impl TKey for k256::ecdsa::SigningKey {
    const KT: &'static str = "k256";
    const TRACED: bool = false;
    fn named(name: &str) -> Option<Self> {
        let (s, a) = secret_of(name)?;
        if s != 'k' {
            return None;
        }
        k256::ecdsa::SigningKey::from_slice(&a).ok()
    }
}

impl TKey for libsecp::SecretKey {
    const KT: &'static str = "libsecp";
    const TRACED: bool = false;
    fn named(name: &str) -> Option<Self> {
        let (s, a) = secret_of(name)?;
        if s != 'k' {
            return None;
        }
        libsecp::SecretKey::from_slice(&a).ok()
    }
}

impl TKey for ed::SigningKey {
    const KT: &'static str = "ed";
    const TRACED: bool = false;
    fn named(name: &str) -> Option<Self> {
        let (s, a) = secret_of(name)?;
        if s != 'e' {
            return None;
        }
        Some(ed::SigningKey::from_bytes(&a))
    }
}

impl TKey for CombinedKey {
    const KT: &'static str = "comb";
    const TRACED: bool = false;
    fn named(name: &str) -> Option<Self> {
        let (s, a) = secret_of(name)?;
        if s == 'k' {
            k256::ecdsa::SigningKey::from_slice(&a).ok().map(CombinedKey::from)
        } else {
            Some(CombinedKey::from(ed::SigningKey::from_bytes(&a)))
        }
    }
}

/// Tracing / fault-injecting wrapper around a built-in key type. Everything is delegated.
pub struct Wrap<K: EnrKey>(pub K);

impl<K: EnrKey> EnrKey for Wrap<K> {
    type PublicKey = K::PublicKey;
    fn sign_v4(&self, msg: &[u8]) -> Result<Vec<u8>, SigningError> {
        logged_sign(|| self.0.sign_v4(msg))
    }
    fn public(&self) -> Self::PublicKey {
        self.0.public()
    }
    fn enr_to_public(content: &BTreeMap<Vec<u8>, Bytes>) -> Result<Self::PublicKey, DecoderError> {
        K::enr_to_public(content)
    }
}

impl TKey for Wrap<k256::ecdsa::SigningKey> {
    const KT: &'static str = "wk256";
    const TRACED: bool = true;
    fn named(name: &str) -> Option<Self> {
        k256::ecdsa::SigningKey::named(name).map(Wrap)
    }
}
impl TKey for Wrap<libsecp::SecretKey> {
    const KT: &'static str = "wlibsecp";
    const TRACED: bool = true;
    fn named(name: &str) -> Option<Self> {
        libsecp::SecretKey::named(name).map(Wrap)
    }
}
impl TKey for Wrap<ed::SigningKey> {
    const KT: &'static str = "wed";
    const TRACED: bool = true;
    fn named(name: &str) -> Option<Self> {
        ed::SigningKey::named(name).map(Wrap)
    }
}
impl TKey for Wrap<CombinedKey> {
    const KT: &'static str = "wcomb";
    const TRACED: bool = true;
    fn named(name: &str) -> Option<Self> {
        CombinedKey::named(name).map(Wrap)
    }
}

// ---- custom scheme with variable-length signatures -------------------------------------------------
// signature = 64-byte ECDSA (k256, deterministic) ++ pad, where pad length = keccak(msg)[0] % 41 and the pad
// bytes repeat keccak(msg)[1..]. Verification checks both parts. Public key entry: "secp256k1" (33 bytes).

pub struct VarKey(pub k256::ecdsa::SigningKey);

#[derive(Clone, Debug)]
pub struct VarPub(pub k256::ecdsa::VerifyingKey);

pub fn var_pad(msg: &[u8]) -> Vec<u8> {
    let h = indep::keccak256(msg);
    let n = (h[0] % 41) as usize;
    (0..n).map(|i| h[1 + (i % 31)]).collect()
}

pub fn var_verify(pk33: &[u8], msg: &[u8], sig: &[u8]) -> bool {
    if sig.len() < 64 {
        return false;
    }
    let pad = var_pad(msg);
    if sig[64..] != pad[..] {
        return false;
    }
    // low-S is not required by this custom scheme; plain mathematical validity
    indep::secp_sigmath_libsecp(pk33, msg, &sig[..64])
}

impl EnrKey for VarKey {
    type PublicKey = VarPub;
    fn sign_v4(&self, msg: &[u8]) -> Result<Vec<u8>, SigningError> {
        logged_sign(|| {
            use k256::ecdsa::signature::hazmat::PrehashSigner;
            let s: k256::ecdsa::Signature =
                self.0.sign_prehash(&indep::keccak256(msg)).map_err(|_| SigningError::verif_new("sign"))?;
            let mut v = s.to_vec();
            v.extend_from_slice(&var_pad(msg));
            Ok(v)
        })
    }
    fn public(&self) -> Self::PublicKey {
        VarPub(*self.0.verifying_key())
    }
    fn enr_to_public(content: &BTreeMap<Vec<u8>, Bytes>) -> Result<Self::PublicKey, DecoderError> {
        k256::ecdsa::SigningKey::enr_to_public(content).map(VarPub)
    }
}

impl EnrPublicKey for VarPub {
    type Raw = Vec<u8>;
    type RawUncompressed = Vec<u8>;
    fn verify_v4(&self, msg: &[u8], sig: &[u8]) -> bool {
        var_verify(&self.0.to_sec1_bytes(), msg, sig)
    }
    fn encode(&self) -> Vec<u8> {
        self.0.to_sec1_bytes().to_vec()
    }
    fn encode_uncompressed(&self) -> Vec<u8> {
        use k256::elliptic_curve::sec1::ToEncodedPoint;
        k256::PublicKey::from(&self.0).to_encoded_point(false).as_bytes()[1..].to_vec()
    }
    fn enr_key(&self) -> Vec<u8> {
        b"secp256k1".to_vec()
    }
}

impl TKey for VarKey {
    const KT: &'static str = "var";
    const TRACED: bool = true;
    fn named(name: &str) -> Option<Self> {
        k256::ecdsa::SigningKey::named(name).map(VarKey)
    }
}
