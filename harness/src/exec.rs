//! Script executor: runs JSON scripts against the real `enr` crate and records one ndjson event per step.
//! The executor never judges; it copies what the public API returned (under catch_unwind) and attaches
//! independently derived oracle facts.

use crate::indep::{self, bytes_json, Item};
use crate::keys::{self, TKey, VarKey, Wrap};
use alloy_rlp::Decodable;
use bytes::Bytes;
use enr::{ed25519_dalek as ed, k256, secp256k1 as libsecp};
use enr::{CombinedKey, Enr, EnrPublicKey, Error as EnrError, NodeId};
use serde_json::{json, Map, Value};
use std::collections::hash_map::DefaultHasher;
use std::collections::HashMap;
use std::hash::{Hash, Hasher};
use std::io::Write;
use std::net::{IpAddr, Ipv4Addr, Ipv6Addr, SocketAddr};
use std::panic::{catch_unwind, AssertUnwindSafe};
use std::str::FromStr;
use std::sync::atomic::{AtomicU64, Ordering};

pub static STEP_STARTED_MS: AtomicU64 = AtomicU64::new(0);
pub static STEP_ID: AtomicU64 = AtomicU64::new(0);

// ------------------------------------------------------------------------------------------------
// JSON helpers
// ------------------------------------------------------------------------------------------------

pub fn jbytes(v: &Value) -> Vec<u8> {
    match v {
        Value::Array(a) => a.iter().map(|x| x.as_u64().expect("byte") as u8).collect(),
        Value::String(s) => indep::unhex(s),
        Value::Null => vec![],
        _ => panic!("bytes expected: {}", v),
    }
}

fn jstr(v: &Value) -> String {
    // array of unicode code points, or a JSON string
    match v {
        Value::String(s) => s.clone(),
        Value::Array(a) => a
            .iter()
            .map(|x| char::from_u32(x.as_u64().expect("cp") as u32).unwrap_or('\u{fffd}'))
            .collect(),
        _ => panic!("string expected"),
    }
}

fn chars_json(s: &str) -> Value {
    Value::Array(s.chars().map(|c| json!(c as u32)).collect())
}

fn opt<T>(o: Option<T>, f: impl Fn(T) -> Value) -> Value {
    match o {
        None => json!([]),
        Some(x) => json!([f(x)]),
    }
}

fn be_u64(b: &[u8]) -> u64 {
    assert!(b.len() <= 8, "seq wider than u64");
    let mut v = 0u64;
    for x in b {
        v = (v << 8) | *x as u64;
    }
    v
}

fn get<'a>(v: &'a Value, k: &str) -> &'a Value {
    v.get(k).unwrap_or(&Value::Null)
}

// ------------------------------------------------------------------------------------------------
// BYTESPEC concretiser
// ------------------------------------------------------------------------------------------------

fn mk_item(v: &Value) -> Item {
    if let Some(s) = v.get("s") {
        Item::S(jbytes(s))
    } else if let Some(u) = v.get("u") {
        Item::S(indep::strip_be(&jbytes(u)))
    } else if let Some(x) = v.get("x") {
        Item::X(jbytes(x))
    } else if let Some(l) = v.get("l") {
        Item::L(l.as_array().expect("list").iter().map(mk_item).collect())
    } else {
        panic!("bad item {}", v)
    }
}

fn enc_items(v: &Value) -> Vec<u8> {
    let mut out = Vec::new();
    for it in v.as_array().expect("items") {
        indep::enc_item(&mk_item(it), &mut out);
    }
    out
}

pub fn mk_bytes(spec: &Value) -> Vec<u8> {
    if let Some(r) = spec.get("raw") {
        return jbytes(r);
    }
    if let Some(c) = spec.get("concat") {
        let mut out = Vec::new();
        for s in c.as_array().expect("concat") {
            out.extend(mk_bytes(s));
        }
        return out;
    }
    if let Some(c) = spec.get("list") {
        let mut p = Vec::new();
        for s in c.as_array().expect("list") {
            p.extend(mk_bytes(s));
        }
        let mut out = Vec::new();
        indep::enc_hdr(true, p.len(), &mut out);
        out.extend(p);
        return out;
    }
    if let Some(m) = spec.get("mut") {
        let mut b = mk_bytes(get(m, "base"));
        for e in get(m, "edits").as_array().expect("edits") {
            apply_edit(&mut b, e);
        }
        return b;
    }
    if let Some(r) = spec.get("rec") {
        return mk_rec(r);
    }
    if let Some(n) = spec.get("nest") {
        // a well-formed list nested `depth` levels deep around the byte string `core`
        let depth = get(n, "depth").as_u64().unwrap_or(1) as usize;
        let mut cur = Vec::new();
        indep::enc_str(&jbytes(get(n, "core")), &mut cur);
        // build inside-out: total size is needed per level, so keep a running payload and prepend headers
        let mut hdrs: Vec<Vec<u8>> = Vec::with_capacity(depth);
        let mut len = cur.len();
        for _ in 0..depth {
            let mut h = Vec::new();
            indep::enc_hdr(true, len, &mut h);
            len += h.len();
            hdrs.push(h);
        }
        let mut out = Vec::with_capacity(len);
        for h in hdrs.iter().rev() {
            out.extend_from_slice(h);
        }
        out.extend_from_slice(&cur);
        return out;
    }
    panic!("bad bytespec {}", spec)
}

fn apply_edit(b: &mut Vec<u8>, e: &Value) {
    let k = get(e, "k").as_str().expect("edit kind");
    let i = get(e, "i").as_u64().unwrap_or(0) as usize;
    match k {
        "flip" => {
            if i / 8 < b.len() {
                b[i / 8] ^= 1 << (7 - (i % 8));
            }
        }
        "del" => {
            if i < b.len() {
                b.remove(i);
            }
        }
        "ins" => {
            let x = get(e, "b").as_u64().unwrap_or(0) as u8;
            let i = i.min(b.len());
            b.insert(i, x);
        }
        "set" => {
            let x = get(e, "b").as_u64().unwrap_or(0) as u8;
            if i < b.len() {
                b[i] = x;
            }
        }
        "trunc" => {
            let n = get(e, "n").as_u64().unwrap_or(0) as usize;
            b.truncate(n);
        }
        "append" => b.extend(jbytes(get(e, "b"))),
        _ => panic!("bad edit"),
    }
}

/// rec := {"items":[ITEM..] | "seq":[..] + "pairs":[[k,raw]..], "sig":SIGSPEC, "outer":OUTER?, "append":[..]?}
fn mk_rec(r: &Value) -> Vec<u8> {
    let items_enc = if let Some(it) = r.get("items") {
        enc_items(it)
    } else {
        let seq = jbytes(get(r, "seq"));
        let mut pairs: Vec<(Vec<u8>, Vec<u8>)> = get(r, "pairs")
            .as_array()
            .expect("pairs")
            .iter()
            .map(|p| (jbytes(&p[0]), jbytes(&p[1])))
            .collect();
        // "grind": {"pos": i, "byte": b}: add a pair "zg" -> counter (kept in key order) and count until the genuine
        // signature has byte b at position i (signatures with a leading zero byte in r or s, etc.)
        if let Some(g) = r.get("grind") {
            let pos = get(g, "pos").as_u64().unwrap_or(0) as usize;
            let want = get(g, "byte").as_u64().unwrap_or(0) as u8;
            let by = get(get(r, "sig"), "by").as_str().expect("grind needs sig.by");
            let key = b"zg".to_vec();
            let at = pairs.iter().position(|(k, _)| *k > key).unwrap_or(pairs.len());
            pairs.insert(at, (key, vec![0x80]));
            for n in 0u32..20000 {
                let mut v = Vec::new();
                indep::enc_str(&n.to_be_bytes(), &mut v);
                pairs[at].1 = v;
                let msg = indep::content_bytes(&indep::items_from_seq_pairs(&seq, &pairs));
                let sig = keys::indep_sign(by, &msg).expect("signer");
                if sig.get(pos) == Some(&want) {
                    break;
                }
            }
        }
        indep::items_from_seq_pairs(&seq, &pairs)
    };
    let sigspec = get(r, "sig");
    let sig_item = mk_sig_item(sigspec, &items_enc);
    let mut payload = sig_item;
    payload.extend_from_slice(&items_enc);
    let mut out = Vec::new();
    let outer = get(r, "outer");
    if let Some(h) = outer.get("hdr") {
        out.extend(jbytes(h));
    } else if outer.get("str").is_some() {
        indep::enc_hdr(false, payload.len(), &mut out);
    } else if let Some(d) = outer.get("delta") {
        let d = d.as_i64().unwrap();
        indep::enc_hdr(true, (payload.len() as i64 + d).max(0) as usize, &mut out);
    } else if outer.get("long").is_some() {
        // non-canonical long form
        if payload.len() < 256 {
            out.push(0xf8);
            out.push(payload.len() as u8);
        } else {
            out.push(0xf9);
            out.push((payload.len() >> 8) as u8);
            out.push(payload.len() as u8);
        }
    } else if outer.get("long0").is_some() {
        out.push(0xf9);
        out.push(0);
        out.push(payload.len() as u8);
    } else {
        indep::enc_hdr(true, payload.len(), &mut out);
    }
    out.extend(payload);
    if let Some(a) = r.get("append") {
        out.extend(jbytes(a));
    }
    out
}

/// further forms of a signature: "der": ASN.1 DER of r || s; "drop": i removes the byte at position i;
/// "lpad" / "rpad": n zero bytes in front / behind
fn sig_post(sig_in: &mut Vec<u8>, s: &Value) {
    let mut sig = std::mem::take(sig_in);
    // "der": the ASN.1 DER form of r || s (what many ECDSA libraries emit by default)
    if s.get("der").and_then(|x| x.as_bool()).unwrap_or(false) && sig.len() == 64 {
        fn int(b: &[u8]) -> Vec<u8> {
            let mut v: Vec<u8> = b.iter().copied().skip_while(|x| *x == 0).collect();
            if v.is_empty() || v[0] & 0x80 != 0 {
                v.insert(0, 0);
            }
            let mut o = vec![0x02, v.len() as u8];
            o.extend(v);
            o
        }
        let mut body = int(&sig[..32]);
        body.extend(int(&sig[32..]));
        let mut o = vec![0x30, body.len() as u8];
        o.extend(body);
        sig = o;
    }
    // "drop": i removes the byte at position i; "lpad": n prepends n zero bytes; "rpad": n appends n zero bytes
    if let Some(i) = s.get("drop").and_then(|x| x.as_u64()) {
        if (i as usize) < sig.len() {
            sig.remove(i as usize);
        }
    }
    if let Some(n) = s.get("lpad").and_then(|x| x.as_u64()) {
        for _ in 0..n {
            sig.insert(0, 0);
        }
    }
    if let Some(n) = s.get("rpad").and_then(|x| x.as_u64()) {
        for _ in 0..n {
            sig.push(0);
        }
    }
    *sig_in = sig;
}

fn mk_sig_item(s: &Value, items_enc: &[u8]) -> Vec<u8> {
    let mut sig: Vec<u8> = if let Some(raw) = s.get("raw") {
        jbytes(raw)
    } else {
        let by = get(s, "by").as_str().expect("sig.by");
        let over = match s.get("over") {
            Some(o) if !o.is_null() => enc_items(o),
            _ => items_enc.to_vec(),
        };
        // "frame": how the signed message frames the item list: canonical (default), "long" = a long-form list header
        // although the payload is shorter than 56 bytes, "long2" = two length bytes, "str" = a string header
        let msg = match get(s, "frame").as_str().unwrap_or("canon") {
            "long" => {
                let mut m = vec![0xf8, over.len() as u8];
                m.extend_from_slice(&over);
                m
            }
            "long2" => {
                let mut m = vec![0xf9, (over.len() >> 8) as u8, over.len() as u8];
                m.extend_from_slice(&over);
                m
            }
            "str" => {
                let mut m = Vec::new();
                indep::enc_hdr(false, over.len(), &mut m);
                m.extend_from_slice(&over);
                m
            }
            "bare" => over.clone(),
            _ => indep::content_bytes(&over),
        };
        keys::indep_sign(by, &msg).expect("signer")
    };
    match get(s, "tweak").as_str().unwrap_or("none") {
        "none" => {}
        "highs" => {
            // make S high: if it is low, replace by n - s
            let s2 = indep::n_minus(&sig[32..64]);
            sig.splice(32..64, s2);
        }
        "zero_r" => sig[..32].iter_mut().for_each(|b| *b = 0),
        "zero_s" => sig[32..64].iter_mut().for_each(|b| *b = 0),
        "r_n" => sig.splice(0..32, indep::SECP_N.to_vec()).for_each(drop),
        "s_n" => sig.splice(32..64, indep::SECP_N.to_vec()).for_each(drop),
        t => panic!("bad tweak {}", t),
    }
    if let Some(n) = s.get("len").and_then(|x| x.as_u64()) {
        sig.resize(n as usize, 0x11);
    }
    sig_post(&mut sig, s);
    let mut out = Vec::new();
    match get(s, "as").as_str().unwrap_or("s") {
        "s" => indep::enc_str(&sig, &mut out),
        "l" => indep::enc_item(&Item::L(vec![Item::S(sig)]), &mut out),
        "x" => out.extend(sig),
        "lh" => {
            // the signature bytes under a LIST header (the string header with its kind bit flipped)
            indep::enc_hdr(true, sig.len(), &mut out);
            out.extend(sig);
        }
        _ => panic!("bad sig.as"),
    }
    out
}

// ------------------------------------------------------------------------------------------------
// observation of a record
// ------------------------------------------------------------------------------------------------

/// table of distinct core observations of one event (lossless dedup by serialised equality)
pub struct Tab(pub Vec<Value>);
impl Tab {
    pub fn new() -> Self {
        Tab(Vec::new())
    }
    /// returns the 1-based index
    pub fn put(&mut self, v: Value) -> usize {
        for (i, x) in self.0.iter().enumerate() {
            if *x == v {
                return i + 1;
            }
        }
        self.0.push(v);
        self.0.len()
    }
}

fn guarded<T>(name: &str, panics: &mut Vec<Value>, f: impl FnOnce() -> T) -> Option<T> {
    match catch_unwind(AssertUnwindSafe(f)) {
        Ok(x) => Some(x),
        Err(_) => {
            panics.push(json!(name));
            None
        }
    }
}

pub fn pairs_of<K: TKey>(e: &Enr<K>) -> Vec<(Vec<u8>, Vec<u8>)> {
    e.iter().map(|(k, v)| (k.clone(), v.to_vec())).collect()
}

fn pairs_json(p: &[(Vec<u8>, Vec<u8>)]) -> Value {
    Value::Array(p.iter().map(|(k, v)| json!([bytes_json(k), bytes_json(v)])).collect())
}

pub fn core_obs<K: TKey>(e: &Enr<K>) -> Value {
    let mut panics = Vec::new();
    let seq = indep::seq_bytes(e.seq());
    let pairs = guarded("iter", &mut panics, || pairs_of(e)).unwrap_or_default();
    let sig = e.signature().to_vec();
    let nid = e.node_id().raw();
    let size = guarded("size", &mut panics, || e.size()).unwrap_or(0);
    let enc = guarded("encode", &mut panics, || alloy_rlp::encode(e)).unwrap_or_default();
    let verify = guarded("verify", &mut panics, || e.verify());
    let pk = guarded("public_key", &mut panics, || K::pub_bytes(&e.public_key()));
    let nid_pk = guarded("nodeid_from_pk", &mut panics, || NodeId::from(e.public_key()).raw());
    // is the record's own encoding accepted again by the decoder of its key type, as an equal record (C05)
    let again = guarded("decode_own_encoding", &mut panics, || {
        let mut buf: &[u8] = &enc;
        match <Enr<K> as alloy_rlp::Decodable>::decode(&mut buf) {
            Ok(d) => buf.is_empty() && d == *e && d.seq() == e.seq() && d.signature() == e.signature(),
            Err(_) => false,
        }
    });
    json!({
        "again": opt(again, |b| json!(b)),
        "seq": bytes_json(&seq),
        "pairs": pairs_json(&pairs),
        "sig": bytes_json(&sig),
        "nid": bytes_json(&nid),
        "size": size,
        "enc": bytes_json(&enc),
        "verify": opt(verify, |b| json!(b)),
        "pk": opt(pk, |b| bytes_json(&b)),
        "nid_pk": opt(nid_pk, |b| bytes_json(&b)),
        "panics": Value::Array(panics),
    })
}

fn sock4(s: std::net::SocketAddrV4) -> Value {
    json!({"ip": bytes_json(&s.ip().octets()), "port": s.port()})
}
fn sock6(s: std::net::SocketAddrV6) -> Value {
    json!({"ip": bytes_json(&s.ip().octets()), "port": s.port(), "flow": s.flowinfo(), "scope": s.scope_id()})
}

fn hash_of<K: TKey>(e: &Enr<K>) -> Vec<u8> {
    let mut h = DefaultHasher::new();
    e.hash(&mut h);
    h.finish().to_be_bytes().to_vec()
}

fn decode_outcome<K: TKey>(input: &[u8], tab: &mut Tab) -> (Value, Option<Enr<K>>) {
    let mut buf: &[u8] = input;
    let r = catch_unwind(AssertUnwindSafe(|| {
        let r = Enr::<K>::decode(&mut buf);
        (r, buf.len())
    }));
    match r {
        Err(_) => (json!({"kind": "panic", "rest": 0, "core": 0, "err": []}), None),
        Ok((Err(x), _)) => (json!({"kind": "err", "rest": 0, "core": 0, "err": chars_json(&format!("{:?}", x))}), None),
        Ok((Ok(e), rest)) => {
            let idx = tab.put(core_obs(&e));
            (json!({"kind": "ok", "rest": rest, "core": idx, "err": []}), Some(e))
        }
    }
}

fn text_outcome<K: TKey>(text: &str, tab: &mut Tab) -> (Value, Option<Enr<K>>) {
    match catch_unwind(AssertUnwindSafe(|| Enr::<K>::from_str(text))) {
        Err(_) => (json!({"kind": "panic", "rest": 0, "core": 0}), None),
        Ok(Err(_)) => (json!({"kind": "err", "rest": 0, "core": 0}), None),
        Ok(Ok(e)) => {
            let idx = tab.put(core_obs(&e));
            (json!({"kind": "ok", "rest": 0, "core": idx}), Some(e))
        }
    }
}

fn json_outcome<K: TKey>(text: &str, tab: &mut Tab) -> (Value, Option<Enr<K>>) {
    match catch_unwind(AssertUnwindSafe(|| serde_json::from_str::<Enr<K>>(text))) {
        Err(_) => (json!({"kind": "panic", "rest": 0, "core": 0}), None),
        Ok(Err(_)) => (json!({"kind": "err", "rest": 0, "core": 0}), None),
        Ok(Ok(e)) => {
            let idx = tab.put(core_obs(&e));
            (json!({"kind": "ok", "rest": 0, "core": idx}), Some(e))
        }
    }
}

fn json_outcome_via<K: TKey>(text: &str, tab: &mut Tab, via: u8) -> (Value, Option<Enr<K>>) {
    let r = catch_unwind(AssertUnwindSafe(|| -> Result<Enr<K>, String> {
        if via == 1 {
            let v: Value = serde_json::from_str(text).map_err(|e| e.to_string())?;
            serde_json::from_value::<Enr<K>>(v).map_err(|e| e.to_string())
        } else {
            serde_json::from_reader::<_, Enr<K>>(text.as_bytes()).map_err(|e| e.to_string())
        }
    }));
    match r {
        Err(_) => (json!({"kind": "panic", "rest": 0, "core": 0}), None),
        Ok(Err(_)) => (json!({"kind": "err", "rest": 0, "core": 0}), None),
        Ok(Ok(e)) => {
            let idx = tab.put(core_obs(&e));
            (json!({"kind": "ok", "rest": 0, "core": idx}), Some(e))
        }
    }
}

/// extended observation: text forms, typed accessors, generic getters, iteration, conversions, re-decodings
pub fn ext_obs<K: TKey>(e: &Enr<K>, tab: &mut Tab) -> Value {
    ext_obs_level(e, tab, 2)
}

/// level 1: typed accessors only; level 2: everything
pub fn ext_obs_level<K: TKey>(e: &Enr<K>, tab: &mut Tab, level: u8) -> Value {
    let mut panics = Vec::new();
    let mut m = Map::new();
    m.insert("level".into(), json!(if level == 1 { "typed" } else { "full" }));
    if level == 1 {
        typed_obs(e, &mut m, &mut panics);
        m.insert("panics".into(), Value::Array(panics));
        return Value::Object(m);
    }
    let text = guarded("to_base64", &mut panics, || e.to_base64()).unwrap_or_default();
    let display = guarded("display", &mut panics, || format!("{}", e)).unwrap_or_default();
    let debug = guarded("debug", &mut panics, || format!("{:?}", e)).unwrap_or_default();
    let js = guarded("serialize", &mut panics, || serde_json::to_string(e).unwrap_or_default()).unwrap_or_default();
    m.insert("text".into(), chars_json(&text));
    m.insert("display".into(), chars_json(&display));
    m.insert("debug".into(), chars_json(&debug));
    m.insert("json".into(), chars_json(&js));
    typed_obs(e, &mut m, &mut panics);
    // generic getters per key
    let pairs = guarded("iter", &mut panics, || pairs_of(e)).unwrap_or_default();
    let mut getters = Vec::new();
    for (k, _) in &pairs {
        let raw = guarded("get_raw_rlp", &mut panics, || e.get_raw_rlp(k).map(|x| x.to_vec())).flatten();
        #[allow(deprecated)]
        let g = guarded("get", &mut panics, || e.get(k).map(|b| b.to_vec()));
        let gd_b = guarded("get_decodable_bytes", &mut panics, || e.get_decodable::<Bytes>(k));
        let gd_u = guarded("get_decodable_u64", &mut panics, || e.get_decodable::<u64>(k));
        let gd_l = guarded("get_decodable_list", &mut panics, || e.get_decodable::<Vec<Bytes>>(k));
        getters.push(json!({
            "raw": opt(raw, |b| bytes_json(&b)),
            "get_panic": g.is_none(),
            "get": opt(g.flatten(), |b| bytes_json(&b)),
            "gd_bytes": opt(gd_b.flatten().and_then(|r| r.ok()), |b| bytes_json(&b)),
            "gd_u64": opt(gd_u.flatten().and_then(|r| r.ok()), |u| bytes_json(&indep::seq_bytes(u))),
            "gd_list": opt(gd_l.flatten().and_then(|r| r.ok()), |l| Value::Array(l.iter().map(|b| bytes_json(b)).collect())),
        }));
    }
    m.insert("getters".into(), Value::Array(getters));
    let absent = guarded("get_absent", &mut panics, || {
        e.get_raw_rlp(b"\xff\xfe absent").is_none() && e.get_decodable::<Bytes>(b"\xff\xfe absent").is_none()
    })
    .unwrap_or(false);
    m.insert("absent_none".into(), json!(absent));
    let into = guarded("into_iter", &mut panics, || {
        e.clone().into_iter().map(|(k, v)| (k, v.to_vec())).collect::<Vec<_>>()
    })
    .unwrap_or_default();
    m.insert("into_iter".into(), pairs_json(&into));
    m.insert("nid_from_ref".into(), bytes_json(&guarded("nodeid_from_ref", &mut panics, || NodeId::from(e).raw()).unwrap_or([0; 32])));
    m.insert("nid_from_val".into(), bytes_json(&guarded("nodeid_from_val", &mut panics, || NodeId::from(e.clone()).raw()).unwrap_or([0; 32])));
    m.insert("hash".into(), bytes_json(&guarded("hash", &mut panics, || hash_of(e)).unwrap_or_default()));
    // clone and self comparison
    let c = guarded("clone", &mut panics, || e.clone());
    if let Some(c) = c {
        let idx = tab.put(core_obs(&c));
        m.insert("clone".into(), json!({"core": idx, "eq": guarded("eq", &mut panics, || c == *e && *e == c).unwrap_or(false),
            "hash_eq": hash_of(&c) == hash_of(e), "cc": guarded("compare_content", &mut panics, || e.compare_content(&c)).unwrap_or(false)}));
    } else {
        m.insert("clone".into(), json!({"core": 0, "eq": false, "hash_eq": false, "cc": false}));
    }
    // re-decodings of the three external forms
    let enc = guarded("encode", &mut panics, || alloy_rlp::encode(e)).unwrap_or_default();
    let mut redec = Map::new();
    let (o, r) = decode_outcome::<K>(&enc, tab);
    redec.insert("bytes".into(), with_eq(o, r.as_ref(), e));
    let (o, r) = text_outcome::<K>(&text, tab);
    redec.insert("text".into(), with_eq(o, r.as_ref(), e));
    let (o, r) = json_outcome::<K>(&js, tab);
    redec.insert("json".into(), with_eq(o, r.as_ref(), e));
    // the same JSON document through the other serde_json entry points (owned value, reader)
    let (o, r) = json_outcome_via::<K>(&js, tab, 1);
    redec.insert("json_value".into(), with_eq(o, r.as_ref(), e));
    let (o, r) = json_outcome_via::<K>(&js, tab, 2);
    redec.insert("json_reader".into(), with_eq(o, r.as_ref(), e));
    // the text form without its prefix
    let (o, r) = text_outcome::<K>(text.strip_prefix("enr:").unwrap_or(&text), tab);
    redec.insert("text_noprefix".into(), with_eq(o, r.as_ref(), e));
    m.insert("redec".into(), Value::Object(redec));
    // the record's encoding decoded under every built-in key type (C11): outcome per key type
    let mut rk = Map::new();
    rk.insert("k256".into(), decode_outcome::<k256::ecdsa::SigningKey>(&enc, tab).0);
    rk.insert("libsecp".into(), decode_outcome::<libsecp::SecretKey>(&enc, tab).0);
    rk.insert("ed".into(), decode_outcome::<ed::SigningKey>(&enc, tab).0);
    rk.insert("comb".into(), decode_outcome::<CombinedKey>(&enc, tab).0);
    m.insert("redec_kts".into(), Value::Object(rk));
    m.insert("panics".into(), Value::Array(panics));
    Value::Object(m)
}

fn typed_obs<K: TKey>(e: &Enr<K>, m: &mut Map<String, Value>, panics: &mut Vec<Value>) {
    // typed accessors
    let ip4 = guarded("ip4", panics, || e.ip4()).flatten();
    let ip6 = guarded("ip6", panics, || e.ip6()).flatten();
    m.insert("ip4".into(), opt(ip4, |a| bytes_json(&a.octets())));
    m.insert("ip6".into(), opt(ip6, |a| bytes_json(&a.octets())));
    m.insert("tcp4".into(), opt(guarded("tcp4", panics, || e.tcp4()).flatten(), |p| json!(p)));
    m.insert("tcp6".into(), opt(guarded("tcp6", panics, || e.tcp6()).flatten(), |p| json!(p)));
    m.insert("udp4".into(), opt(guarded("udp4", panics, || e.udp4()).flatten(), |p| json!(p)));
    m.insert("udp6".into(), opt(guarded("udp6", panics, || e.udp6()).flatten(), |p| json!(p)));
    m.insert("udp4_socket".into(), opt(guarded("udp4_socket", panics, || e.udp4_socket()).flatten(), sock4));
    m.insert("udp6_socket".into(), opt(guarded("udp6_socket", panics, || e.udp6_socket()).flatten(), sock6));
    m.insert("tcp4_socket".into(), opt(guarded("tcp4_socket", panics, || e.tcp4_socket()).flatten(), sock4));
    m.insert("tcp6_socket".into(), opt(guarded("tcp6_socket", panics, || e.tcp6_socket()).flatten(), sock6));
    m.insert("udp_reach".into(), json!(guarded("is_udp_reachable", panics, || e.is_udp_reachable()).unwrap_or(false)));
    m.insert("tcp_reach".into(), json!(guarded("is_tcp_reachable", panics, || e.is_tcp_reachable()).unwrap_or(false)));
    m.insert("id".into(), opt(guarded("id", panics, || e.id()).flatten(), |s| bytes_json(s.as_bytes())));
    m.insert(
        "client".into(),
        opt(guarded("client_info", panics, || e.client_info()).flatten(), |(n, v, b)| {
            json!({"n": bytes_json(n.as_bytes()), "v": bytes_json(v.as_bytes()), "b": opt(b, |s| bytes_json(s.as_bytes()))})
        }),
    );
}

fn with_eq<K: TKey>(mut o: Value, r: Option<&Enr<K>>, e: &Enr<K>) -> Value {
    let (eq, heq) = match r {
        Some(r) => (
            catch_unwind(AssertUnwindSafe(|| r == e && e == r)).unwrap_or(false),
            catch_unwind(AssertUnwindSafe(|| hash_of(r) == hash_of(e))).unwrap_or(false),
        ),
        None => (false, false),
    };
    o.as_object_mut().unwrap().insert("eq".into(), json!(eq));
    o.as_object_mut().unwrap().insert("hash_eq".into(), json!(heq));
    o
}

/// facts about a record state, from its observed (seq, pairs, sig) through the independent encoder
pub fn rec_facts(core: &Value) -> Value {
    let seq = jbytes(&core["seq"]);
    let pairs: Vec<(Vec<u8>, Vec<u8>)> =
        core["pairs"].as_array().unwrap().iter().map(|p| (jbytes(&p[0]), jbytes(&p[1]))).collect();
    let sig = jbytes(&core["sig"]);
    let items = indep::items_from_seq_pairs(&seq, &pairs);
    let msg = indep::content_bytes(&items);
    let mut secp = None;
    let mut edpk = None;
    for (k, v) in &pairs {
        if k == b"secp256k1" || k == b"ed25519" {
            // the value must be exactly one string item
            if let Some((false, ps, pl)) = indep::hdr(v, 0, v.len()) {
                if ps + pl == v.len() {
                    let p = v[ps..ps + pl].to_vec();
                    if k == b"secp256k1" {
                        secp = Some(p)
                    } else {
                        edpk = Some(p)
                    }
                }
            }
        }
    }
    let mut f = indep::facts(&msg, &sig, secp.as_deref(), edpk.as_deref());
    // VarKey scheme: own verification (64-byte ECDSA ++ message-dependent padding)
    let var_sm = match &secp {
        Some(pk) => keys::var_verify(pk, &msg, &sig),
        None => false,
    };
    f.as_object_mut().unwrap().insert("var_sm".into(), json!(var_sm));
    f
}

// ------------------------------------------------------------------------------------------------
// handles
// ------------------------------------------------------------------------------------------------

pub enum AnyEnr {
    K256(Enr<k256::ecdsa::SigningKey>),
    Lib(Enr<libsecp::SecretKey>),
    Ed(Enr<ed::SigningKey>),
    Comb(Enr<CombinedKey>),
    WK256(Enr<Wrap<k256::ecdsa::SigningKey>>),
    WLib(Enr<Wrap<libsecp::SecretKey>>),
    WEd(Enr<Wrap<ed::SigningKey>>),
    WComb(Enr<Wrap<CombinedKey>>),
    Var(Enr<VarKey>),
}

pub trait Slot: TKey {
    fn wrap(e: Enr<Self>) -> AnyEnr;
}
macro_rules! slot {
    ($t:ty, $v:ident) => {
        impl Slot for $t {
            fn wrap(e: Enr<Self>) -> AnyEnr {
                AnyEnr::$v(e)
            }
        }
    };
}
slot!(k256::ecdsa::SigningKey, K256);
slot!(libsecp::SecretKey, Lib);
slot!(ed::SigningKey, Ed);
slot!(CombinedKey, Comb);
slot!(Wrap<k256::ecdsa::SigningKey>, WK256);
slot!(Wrap<libsecp::SecretKey>, WLib);
slot!(Wrap<ed::SigningKey>, WEd);
slot!(Wrap<CombinedKey>, WComb);
slot!(VarKey, Var);

macro_rules! with_any {
    ($any:expr, $e:ident => $body:expr) => {
        match $any {
            AnyEnr::K256($e) => $body,
            AnyEnr::Lib($e) => $body,
            AnyEnr::Ed($e) => $body,
            AnyEnr::Comb($e) => $body,
            AnyEnr::WK256($e) => $body,
            AnyEnr::WLib($e) => $body,
            AnyEnr::WEd($e) => $body,
            AnyEnr::WComb($e) => $body,
            AnyEnr::Var($e) => $body,
        }
    };
}

macro_rules! with_kt {
    ($kt:expr, $K:ident => $body:expr) => {
        match $kt {
            "k256" => {
                type $K = k256::ecdsa::SigningKey;
                $body
            }
            "libsecp" => {
                type $K = libsecp::SecretKey;
                $body
            }
            "ed" => {
                type $K = ed::SigningKey;
                $body
            }
            "comb" => {
                type $K = CombinedKey;
                $body
            }
            "wk256" => {
                type $K = Wrap<k256::ecdsa::SigningKey>;
                $body
            }
            "wlibsecp" => {
                type $K = Wrap<libsecp::SecretKey>;
                $body
            }
            "wed" => {
                type $K = Wrap<ed::SigningKey>;
                $body
            }
            "wcomb" => {
                type $K = Wrap<CombinedKey>;
                $body
            }
            "var" => {
                type $K = VarKey;
                $body
            }
            other => panic!("unknown key type {}", other),
        }
    };
}

fn kt_of(a: &AnyEnr) -> &'static str {
    fn k<K: TKey>(_: &Enr<K>) -> &'static str {
        K::KT
    }
    with_any!(a, e => k(e))
}

// ------------------------------------------------------------------------------------------------
// calls
// ------------------------------------------------------------------------------------------------

fn err_json(e: &EnrError) -> Value {
    // formatting an error value (Display, Debug, source chain, clone, equality) is part of "reporting failures as
    // error values" (C03): a panic in there counts as a panic of the call
    let fmt_ok = std::panic::catch_unwind(|| {
        let src = std::error::Error::source(e).map(|s| s.to_string()).unwrap_or_default();
        let c = e.clone();
        format!("{} {:?} {:#?} {}", e, e, c, src).len() > 0 && c == *e
    })
    .unwrap_or(false);
    if !fmt_ok {
        return json!({"kind": "panic", "err": "error value cannot be formatted", "ret": []});
    }
    let k = match e {
        EnrError::ExceedsMaxSize => "ExceedsMaxSize",
        EnrError::SequenceNumberTooHigh => "SequenceNumberTooHigh",
        EnrError::SigningError => "SigningError",
        EnrError::UnsupportedIdentityScheme => "UnsupportedIdentityScheme",
        EnrError::InvalidRlpData(_) => "InvalidRlpData",
    };
    json!({"kind": "err", "err": k, "ret": []})
}

fn ok_json(ret: Value) -> Value {
    json!({"kind": "ok", "err": "", "ret": ret})
}

fn ip_of(b: &[u8]) -> IpAddr {
    if b.len() == 4 {
        let mut a = [0u8; 4];
        a.copy_from_slice(b);
        IpAddr::V4(Ipv4Addr::from(a))
    } else {
        let mut a = [0u8; 16];
        a.copy_from_slice(b);
        IpAddr::V6(Ipv6Addr::from(a))
    }
}

fn ip_bytes(ip: IpAddr) -> Vec<u8> {
    match ip {
        IpAddr::V4(a) => a.octets().to_vec(),
        IpAddr::V6(a) => a.octets().to_vec(),
    }
}

/// typed value -> call `f` with an Encodable
enum Typed {
    B(Vec<u8>),
    U64(u64),
    U16(u16),
    L(Vec<Bytes>),
    Str(String),
    Ip4(Ipv4Addr),
    Ip6(Ipv6Addr),
}

fn typed_of(v: &Value) -> Typed {
    let ty = get(v, "ty").as_str().expect("ty");
    let x = get(v, "v");
    match ty {
        "bytes" => Typed::B(jbytes(x)),
        "u64" => Typed::U64(be_u64(&jbytes(x))),
        "u16" => Typed::U16(x.as_u64().expect("u16") as u16),
        "list" => Typed::L(x.as_array().expect("list").iter().map(|b| Bytes::from(jbytes(b))).collect()),
        "str" => Typed::Str(String::from_utf8(jbytes(x)).expect("utf8")),
        "ip4" => match ip_of(&jbytes(x)) {
            IpAddr::V4(a) => Typed::Ip4(a),
            _ => panic!(),
        },
        "ip6" => match ip_of(&jbytes(x)) {
            IpAddr::V6(a) => Typed::Ip6(a),
            _ => panic!(),
        },
        _ => panic!("bad ty"),
    }
}

fn res_unit(r: Result<(), EnrError>) -> Value {
    match r {
        Ok(()) => ok_json(json!([])),
        Err(e) => err_json(&e),
    }
}
fn res_optbytes(r: Result<Option<Bytes>, EnrError>) -> Value {
    match r {
        Ok(o) => ok_json(opt(o, |b| bytes_json(&b))),
        Err(e) => err_json(&e),
    }
}
fn res_optport(r: Result<Option<u16>, EnrError>) -> Value {
    match r {
        Ok(o) => ok_json(opt(o, |p| json!(p))),
        Err(e) => err_json(&e),
    }
}

fn do_call<K: TKey>(e: &mut Enr<K>, m: &str, args: &Value, signer: &K) -> Value {
    match m {
        "set_seq" => res_unit(e.set_seq(be_u64(&jbytes(get(args, "seq"))), signer)),
        "insert" => {
            let key = jbytes(get(args, "key"));
            res_optbytes(match typed_of(get(args, "val")) {
                Typed::B(b) => e.insert(&key, &b.as_slice(), signer),
                Typed::U64(u) => e.insert(&key, &u, signer),
                Typed::U16(u) => e.insert(&key, &u, signer),
                Typed::L(l) => e.insert(&key, &l, signer),
                Typed::Str(s) => e.insert(&key, &s, signer),
                Typed::Ip4(a) => e.insert(&key, &a, signer),
                Typed::Ip6(a) => e.insert(&key, &a, signer),
            })
        }
        "insert_raw_rlp" => {
            let key = jbytes(get(args, "key"));
            res_optbytes(e.insert_raw_rlp(&key, Bytes::from(jbytes(get(args, "raw"))), signer))
        }
        "set_ip" => match e.set_ip(ip_of(&jbytes(get(args, "ip"))), signer) {
            Ok(o) => ok_json(opt(o, |ip| bytes_json(&ip_bytes(ip)))),
            Err(x) => err_json(&x),
        },
        "set_udp4" => res_optport(e.set_udp4(get(args, "port").as_u64().unwrap() as u16, signer)),
        "set_udp6" => res_optport(e.set_udp6(get(args, "port").as_u64().unwrap() as u16, signer)),
        "set_tcp4" => res_optport(e.set_tcp4(get(args, "port").as_u64().unwrap() as u16, signer)),
        "set_tcp6" => res_optport(e.set_tcp6(get(args, "port").as_u64().unwrap() as u16, signer)),
        "remove_udp4" => res_unit(e.remove_udp4(signer)),
        "remove_udp6" => res_unit(e.remove_udp6(signer)),
        "remove_tcp" => res_unit(e.remove_tcp(signer)),
        "remove_tcp6" => res_unit(e.remove_tcp6(signer)),
        "set_client_info" => {
            let n = String::from_utf8(jbytes(get(args, "name"))).expect("utf8");
            let v = String::from_utf8(jbytes(get(args, "version"))).expect("utf8");
            let b = get(args, "build").as_array().and_then(|a| a.first()).map(|x| String::from_utf8(jbytes(x)).expect("utf8"));
            res_unit(e.set_client_info(n, v, b, signer))
        }
        "set_udp_socket" | "set_tcp_socket" => {
            let s = SocketAddr::new(ip_of(&jbytes(get(args, "ip"))), get(args, "port").as_u64().unwrap() as u16);
            res_unit(if m == "set_udp_socket" { e.set_udp_socket(s, signer) } else { e.set_tcp_socket(s, signer) })
        }
        "remove_udp_socket" => res_unit(e.remove_udp_socket(signer)),
        "remove_udp6_socket" => res_unit(e.remove_udp6_socket(signer)),
        "remove_tcp_socket" => res_unit(e.remove_tcp_socket(signer)),
        "remove_tcp6_socket" => res_unit(e.remove_tcp6_socket(signer)),
        "remove_key" => res_unit(e.remove_key(jbytes(get(args, "key")), signer)),
        "remove_insert" => {
            let rm: Vec<Vec<u8>> = get(args, "remove").as_array().map(|a| a.iter().map(jbytes).collect()).unwrap_or_default();
            let ins: Vec<(Vec<u8>, Vec<u8>)> = get(args, "insert")
                .as_array()
                .map(|a| a.iter().map(|p| (jbytes(&p[0]), jbytes(&p[1]))).collect())
                .unwrap_or_default();
            let r = e.remove_insert(rm.iter(), ins.iter().map(|(k, v)| (k.clone(), v.as_slice())), signer);
            match r {
                Ok((a, b)) => {
                    let f = |v: Vec<Option<Bytes>>| Value::Array(v.into_iter().map(|o| opt(o, |b| bytes_json(&b))).collect());
                    ok_json(json!({"removed": f(a), "inserted": f(b)}))
                }
                Err(x) => err_json(&x),
            }
        }
        "set_public_key" => {
            let other = K::named(get(args, "pk_of").as_str().expect("pk_of")).expect("pk_of signer");
            res_unit(e.set_public_key(&other.public(), signer))
        }
        _ => panic!("unknown method {}", m),
    }
}

fn do_build<K: TKey>(step: &Value, signer: &K) -> Result<Enr<K>, EnrError> {
    if get(step, "empty").as_bool().unwrap_or(false) {
        return Enr::<K>::empty(signer);
    }
    let mut b = Enr::<K>::builder();
    apply_builder_calls(&mut b, get(step, "calls"));
    // the same builder may be used again: `rebuild` = build once more after applying `calls2`
    if get(step, "rebuild").as_bool().unwrap_or(false) {
        // `first_signer`: the first record is built with ANOTHER key (of the same scheme), the second with `signer`
        let _first = match get(step, "first_signer").as_str().and_then(K::named) {
            Some(k0) => b.build(&k0),
            None => b.build(signer),
        };
        apply_builder_calls(&mut b, get(step, "calls2"));
    }
    b.build(signer)
}

fn apply_builder_calls<K: TKey>(b: &mut enr::Builder<K>, calls: &Value) {
    for c in calls.as_array().map(|a| a.as_slice()).unwrap_or(&[]) {
        let m = get(c, "m").as_str().expect("m");
        match m {
            "seq" => {
                b.seq(be_u64(&jbytes(get(c, "seq"))));
            }
            "add_value_rlp" => {
                b.add_value_rlp(jbytes(get(c, "key")), Bytes::from(jbytes(get(c, "raw"))));
            }
            "add_value" => {
                let key = jbytes(get(c, "key"));
                match typed_of(get(c, "val")) {
                    Typed::B(x) => b.add_value(&key, &x.as_slice()),
                    Typed::U64(u) => b.add_value(&key, &u),
                    Typed::U16(u) => b.add_value(&key, &u),
                    Typed::L(l) => b.add_value(&key, &l),
                    Typed::Str(s) => b.add_value(&key, &s),
                    Typed::Ip4(a) => b.add_value(&key, &a),
                    Typed::Ip6(a) => b.add_value(&key, &a),
                };
            }
            "ip" => {
                b.ip(ip_of(&jbytes(get(c, "ip"))));
            }
            "ip4" => match ip_of(&jbytes(get(c, "ip"))) {
                IpAddr::V4(a) => {
                    b.ip4(a);
                }
                _ => panic!("ip4"),
            },
            "ip6" => match ip_of(&jbytes(get(c, "ip"))) {
                IpAddr::V6(a) => {
                    b.ip6(a);
                }
                _ => panic!("ip6"),
            },
            "tcp4" => {
                b.tcp4(get(c, "port").as_u64().unwrap() as u16);
            }
            "tcp6" => {
                b.tcp6(get(c, "port").as_u64().unwrap() as u16);
            }
            "udp4" => {
                b.udp4(get(c, "port").as_u64().unwrap() as u16);
            }
            "udp6" => {
                b.udp6(get(c, "port").as_u64().unwrap() as u16);
            }
            "client_info" => {
                let n = String::from_utf8(jbytes(get(c, "name"))).expect("utf8");
                let v = String::from_utf8(jbytes(get(c, "version"))).expect("utf8");
                let bd = get(c, "build").as_array().and_then(|a| a.first()).map(|x| String::from_utf8(jbytes(x)).expect("utf8"));
                b.client_info(n, v, bd);
            }
            _ => panic!("unknown builder method {}", m),
        }
    }
}

fn signs_json(traced: bool) -> Value {
    let s = keys::take_signs();
    json!({"traced": traced, "log": Value::Array(s.iter().map(|(l, f)| json!({"len": l, "failed": f})).collect())})
}

// ------------------------------------------------------------------------------------------------
// executor
// ------------------------------------------------------------------------------------------------

pub struct Exec<W: Write> {
    pub out: W,
    pub handles: HashMap<String, AnyEnr>,
    pub events: u64,
}

fn now_ms() -> u64 {
    std::time::SystemTime::now().duration_since(std::time::UNIX_EPOCH).map(|d| d.as_millis() as u64).unwrap_or(0)
}

impl<W: Write> Exec<W> {
    fn emit(&mut self, v: Value) {
        // every recorded event re-arms the watchdog (a sweep step records thousands of events)
        if STEP_STARTED_MS.load(Ordering::SeqCst) != 0 {
            STEP_STARTED_MS.store(now_ms(), Ordering::SeqCst);
        }
        serde_json::to_writer(&mut self.out, &v).expect("write");
        self.out.write_all(b"\n").expect("write");
        self.events += 1;
    }

    /// store the record in handle `h` (if Some) and return the (post index, ext, facts)
    fn finish_rec<K: Slot>(&mut self, h: &str, e: Enr<K>, full: u8, tab: &mut Tab) -> (usize, Value, Value) {
        let core = core_obs(&e);
        let facts = rec_facts(&core);
        let idx = tab.put(core);
        let ext = if full > 0 { json!([ext_obs_level(&e, tab, full)]) } else { json!([]) };
        if !h.is_empty() {
            self.handles.insert(h.to_string(), K::wrap(e));
        }
        (idx, ext, facts)
    }

    pub fn run_script(&mut self, sid: &Value, script: &Value) {
        self.handles.clear();
        let steps = get(script, "steps").as_array().expect("steps");
        let full_default = match get(script, "obs").as_str().unwrap_or("core") { "full" => 2u8, "typed" => 1u8, _ => 0u8 };
        for (i, step) in steps.iter().enumerate() {
            STEP_ID.fetch_add(1, Ordering::SeqCst);
            STEP_STARTED_MS.store(now_ms(), Ordering::SeqCst);
            let full = match get(step, "obs").as_str() {
                Some("full") => 2u8,
                Some("typed") => 1u8,
                Some(_) => 0u8,
                None => full_default,
            };
            self.run_step(sid, i + 1, step, full);
            STEP_STARTED_MS.store(0, Ordering::SeqCst);
        }
    }

    fn base(&self, t: &str, sid: &Value, i: usize, step: &Value) -> Map<String, Value> {
        let mut m = Map::new();
        m.insert("t".into(), json!(t));
        m.insert("sid".into(), json!(match sid { Value::String(s) => s.clone(), v => v.to_string() }));
        m.insert("i".into(), json!(i));
        m.insert("h".into(), json!(get(step, "h").as_str().unwrap_or("")));
        m.insert("tag".into(), json!(get(step, "tag").as_str().unwrap_or("")));
        m
    }

    fn run_step(&mut self, sid: &Value, i: usize, step: &Value, full: u8) {
        let op = get(step, "op").as_str().expect("op").to_string();
        // steps on handles that do not exist (their construction was refused) are recorded as skipped
        let missing = |me: &Self, k: &str| get(step, k).as_str().map(|h| !me.handles.contains_key(h)).unwrap_or(false);
        let skip = match op.as_str() {
            "clone" => missing(self, "from"),
            "compare" => missing(self, "a") || missing(self, "b"),
            "build" | "decode" => get(step, "ifmissing").as_bool().unwrap_or(false) && !missing(self, "h"),
            _ => false,
        };
        if skip {
            let mut m = self.base("skip", sid, i, step);
            m.insert("x".into(), json!(0));
            self.emit(Value::Object(m));
            return;
        }
        match op.as_str() {
            "decode" => {
                let input = match get(step, "input").get("from").and_then(|x| x.as_str()) {
                    Some(h) => match self.handles.get(h) {
                        Some(any) => with_any!(any, e => alloy_rlp::encode(e)),
                        None => {
                            let mut m = self.base("skip", sid, i, step);
                            m.insert("x".into(), json!(0));
                            self.emit(Value::Object(m));
                            return;
                        }
                    },
                    None => mk_bytes(get(step, "input")),
                };
                self.decode_event(sid, i, step, &input, full, 0);
            }
            "decode_sweep" => {
                let base = mk_bytes(get(step, "base"));
                let sweep = get(step, "sweep").as_str().expect("sweep");
                let stride = get(step, "stride").as_u64().unwrap_or(1).max(1) as usize;
                let offset = get(step, "offset").as_u64().unwrap_or(0) as usize;
                let mut j = 0usize;
                let mut run = |me: &mut Self, b: &[u8]| {
                    j += 1;
                    me.decode_event(sid, i, step, b, 0, j);
                };
                match sweep {
                    "bitflips" => {
                        let mut bit = offset;
                        while bit < base.len() * 8 {
                            let mut b = base.clone();
                            b[bit / 8] ^= 1 << (7 - (bit % 8));
                            run(self, &b);
                            bit += stride;
                        }
                    }
                    "truncs" => {
                        let mut n = offset;
                        while n < base.len() {
                            run(self, &base[..n]);
                            n += stride;
                        }
                    }
                    "dels" => {
                        let mut n = offset;
                        while n < base.len() {
                            let mut b = base.clone();
                            b.remove(n);
                            run(self, &b);
                            n += stride;
                        }
                    }
                    "dups" => {
                        let mut n = offset;
                        while n < base.len() {
                            let mut b = base.clone();
                            b.insert(n, base[n]);
                            run(self, &b);
                            n += stride;
                        }
                    }
                    _ => panic!("bad sweep"),
                }
            }
            "from_str" | "from_json" => self.text_event(sid, i, step, &op, full),
            "build" => self.build_event(sid, i, step, full),
            "call" => self.call_event(sid, i, step, full),
            "clone" => {
                let from = get(step, "from").as_str().expect("from");
                let h = get(step, "h").as_str().expect("h").to_string();
                let mut tab = Tab::new();
                let src = self.handles.remove(from).expect("clone: unknown handle");
                let (idx, ext, facts, kt) = with_any!(&src, e => {
                    let c = e.clone();
                    let kt = kt_of(&src);
                    let (a, b, c2) = self.finish_rec(&h, c, full, &mut tab);
                    (a, b, c2, kt)
                });
                self.handles.insert(from.to_string(), src);
                let mut m = self.base("clone", sid, i, step);
                m.insert("from".into(), json!(from));
                m.insert("kt".into(), json!(kt));
                m.insert("post".into(), json!(idx));
                m.insert("ext".into(), ext);
                m.insert("facts".into(), facts);
                m.insert("tab".into(), Value::Array(tab.0));
                self.emit(Value::Object(m));
            }
            "compare" => {
                let a = get(step, "a").as_str().expect("a");
                let b = get(step, "b").as_str().expect("b");
                let ea = self.handles.get(a).expect("compare: a");
                let eb = self.handles.get(b).expect("compare: b");
                fn cmp<K: TKey>(x: &Enr<K>, y: &Enr<K>) -> Value {
                    let mut panics = Vec::new();
                    let eq_ab = guarded("eq", &mut panics, || x == y).unwrap_or(false);
                    let eq_ba = guarded("eq", &mut panics, || y == x).unwrap_or(false);
                    let ne_ab = guarded("ne", &mut panics, || x != y).unwrap_or(false);
                    let cc_ab = guarded("compare_content", &mut panics, || x.compare_content(y)).unwrap_or(false);
                    let cc_ba = guarded("compare_content", &mut panics, || y.compare_content(x)).unwrap_or(false);
                    let heq = guarded("hash", &mut panics, || hash_of(x) == hash_of(y)).unwrap_or(false);
                    // Clone::clone_from: y's clone refreshed in place from x must be x in every respect
                    let cf = guarded("clone_from", &mut panics, || {
                        let mut t = y.clone();
                        t.clone_from(x);
                        let same = t == *x && hash_of(&t) == hash_of(x) && alloy_rlp::encode(&t) == alloy_rlp::encode(x) && t.compare_content(x);
                        let nid = t.node_id() == x.node_id() && NodeId::from(t.public_key()) == t.node_id();
                        (same, nid)
                    })
                    .unwrap_or((false, false));
                    json!({"eq_ab": eq_ab, "eq_ba": eq_ba, "ne_ab": ne_ab, "cc_ab": cc_ab, "cc_ba": cc_ba, "hash_eq": heq,
                           "cf_same": cf.0, "cf_nid": cf.1,
                           "panics": Value::Array(panics)})
                }
                let r = match (ea, eb) {
                    (AnyEnr::K256(x), AnyEnr::K256(y)) => cmp(x, y),
                    (AnyEnr::Lib(x), AnyEnr::Lib(y)) => cmp(x, y),
                    (AnyEnr::Ed(x), AnyEnr::Ed(y)) => cmp(x, y),
                    (AnyEnr::Comb(x), AnyEnr::Comb(y)) => cmp(x, y),
                    (AnyEnr::WK256(x), AnyEnr::WK256(y)) => cmp(x, y),
                    (AnyEnr::WLib(x), AnyEnr::WLib(y)) => cmp(x, y),
                    (AnyEnr::WEd(x), AnyEnr::WEd(y)) => cmp(x, y),
                    (AnyEnr::WComb(x), AnyEnr::WComb(y)) => cmp(x, y),
                    (AnyEnr::Var(x), AnyEnr::Var(y)) => cmp(x, y),
                    _ => panic!("compare: key types differ"),
                };
                let mut m = self.base("compare", sid, i, step);
                m.insert("a".into(), json!(a));
                m.insert("b".into(), json!(b));
                m.insert("r".into(), r);
                self.emit(Value::Object(m));
            }
            "encode_list" => self.enclist_event(sid, i, step),
            "pubkey" => self.pubkey_event(sid, i, step),
            "decpub" => self.decpub_event(sid, i, step),
            "verifyraw" => self.verifyraw_event(sid, i, step),
            "keygen" => self.keygen_event(sid, i, step),
            "decode_stream" => self.stream_event(sid, i, step),
            "decode_list" => self.list_event(sid, i, step),
            "nodeid" => self.nodeid_event(sid, i, step),
            "key_import" => self.key_event(sid, i, step),
            "reset" => {
                let mut m = self.base("reset", sid, i, step);
                m.insert("x".into(), json!(0));
                self.handles.clear();
                self.emit(Value::Object(m));
            }
            _ => panic!("unknown op {}", op),
        }
    }

    fn kts_of(step: &Value) -> Vec<String> {
        match step.get("kts") {
            Some(Value::Array(a)) => a.iter().map(|x| x.as_str().unwrap().to_string()).collect(),
            _ => vec![get(step, "kt").as_str().expect("kt or kts").to_string()],
        }
    }

    fn decode_event(&mut self, sid: &Value, i: usize, step: &Value, input: &[u8], full: u8, j: usize) {
        let kts = Self::kts_of(step);
        let h = get(step, "h").as_str().unwrap_or("").to_string();
        let bind_kt = get(step, "kt").as_str().map(|s| s.to_string()).unwrap_or_else(|| kts[0].clone());
        let mut tab = Tab::new();
        let mut res = Vec::new();
        let mut ext = json!([]);
        for kt in &kts {
            let bind = !h.is_empty() && *kt == bind_kt;
            let o = with_kt!(kt.as_str(), K => {
                let (o, r) = decode_outcome::<K>(input, &mut tab);
                if let Some(e) = r {
                    if full > 0 && *kt == bind_kt { ext = json!([ext_obs_level(&e, &mut tab, full)]); }
                    if bind { self.handles.insert(h.clone(), <K as Slot>::wrap(e)); }
                } else if bind { self.handles.remove(&h); }
                o
            });
            res.push(o);
        }
        // when the buffer continues after its first complete item, also decode that item alone (C13)
        let ilen = match indep::hdr(input, 0, input.len()) {
            Some((_, ps, pl)) => ps + pl,
            None => 0,
        };
        let mut alone = Vec::new();
        if ilen > 0 && ilen < input.len() {
            for kt in &kts {
                let o = with_kt!(kt.as_str(), K => decode_outcome::<K>(&input[..ilen], &mut tab).0);
                alone.push(o);
            }
        }
        let mut m = self.base("decode", sid, i, step);
        m.insert("ilen".into(), json!(ilen));
        m.insert("alone".into(), Value::Array(alone));
        m.insert("j".into(), json!(j));
        m.insert("input".into(), bytes_json(input));
        m.insert("kts".into(), json!(kts));
        m.insert("kt".into(), json!(bind_kt));
        m.insert("res".into(), Value::Array(res));
        m.insert("ext".into(), ext);
        m.insert("tab".into(), Value::Array(tab.0));
        m.insert("facts".into(), indep::facts_for_bytes(input));
        self.emit(Value::Object(m));
    }

    fn text_event(&mut self, sid: &Value, i: usize, step: &Value, op: &str, full: u8) {
        // text: {"chars":[cp..]} | {"b64": BYTESPEC, "prefix":[cp], "suffix":[cp], "std":bool, "pad":n, "tb":n}
        let kts = Self::kts_of(step);
        let h = get(step, "h").as_str().unwrap_or("").to_string();
        let bind_kt = get(step, "kt").as_str().map(|s| s.to_string()).unwrap_or_else(|| kts[0].clone());
        let t = get(step, "text");
        let text: String = if let Some(c) = t.get("chars") {
            jstr(c)
        } else {
            let bytes = mk_bytes(get(t, "b64"));
            let mut s = b64url(&bytes, get(t, "std").as_bool().unwrap_or(false));
            if let Some(tb) = t.get("tb").and_then(|x| x.as_u64()) {
                // set the unused trailing bits of the last character
                if let Some(last) = s.pop() {
                    s.push(set_trailing_bits(last, bytes.len(), tb as u8, get(t, "std").as_bool().unwrap_or(false)));
                }
            }
            for _ in 0..get(t, "pad").as_u64().unwrap_or(0) {
                s.push('=');
            }
            let mut full_s = t.get("prefix").map(jstr).unwrap_or_default();
            full_s.push_str(&s);
            full_s.push_str(&t.get("suffix").map(jstr).unwrap_or_default());
            if let Some(ins) = t.get("ins") {
                // insert code point at char position
                let pos = get(ins, "at").as_u64().unwrap_or(0) as usize;
                let cp = char::from_u32(get(ins, "cp").as_u64().unwrap_or(32) as u32).unwrap_or(' ');
                let mut cs: Vec<char> = full_s.chars().collect();
                let pos = pos.min(cs.len());
                cs.insert(pos, cp);
                full_s = cs.into_iter().collect();
            }
            full_s
        };
        let mut tab = Tab::new();
        let mut res = Vec::new();
        let mut ext = json!([]);
        let arg = if op == "from_json" && get(step, "quote").as_bool().unwrap_or(false) {
            serde_json::to_string(&text).unwrap()
        } else {
            text.clone()
        };
        for kt in &kts {
            let bind = !h.is_empty() && *kt == bind_kt;
            let o = with_kt!(kt.as_str(), K => {
                let (o, r) = if op == "from_str" { text_outcome::<K>(&arg, &mut tab) } else { json_outcome::<K>(&arg, &mut tab) };
                if let Some(e) = r {
                    if full > 0 && *kt == bind_kt { ext = json!([ext_obs_level(&e, &mut tab, full)]); }
                    if bind { self.handles.insert(h.clone(), <K as Slot>::wrap(e)); }
                } else if bind { self.handles.remove(&h); }
                o
            });
            res.push(o);
        }
        let mut m = self.base(op, sid, i, step);
        m.insert("text".into(), chars_json(&arg));
        // the string the parser is given: the text itself, or the content of the JSON string document
        let (isstr, inner) = if op == "from_str" {
            (true, arg.clone())
        } else {
            match serde_json::from_str::<Value>(&arg) {
                Ok(Value::String(s)) => (true, s),
                _ => (false, String::new()),
            }
        };
        m.insert("isstr".into(), json!(isstr));
        m.insert("inner".into(), chars_json(&inner));
        m.insert("kts".into(), json!(kts));
        m.insert("kt".into(), json!(bind_kt));
        m.insert("res".into(), Value::Array(res));
        m.insert("ext".into(), ext);
        m.insert("tab".into(), Value::Array(tab.0));
        // facts: about the bytes the spec will obtain; the harness offers facts for every plausible decoding
        let cands = text_candidates(&arg, op == "from_json");
        m.insert("fcands".into(), Value::Array(cands.iter().map(|b| json!({"bytes": bytes_json(b), "facts": indep::facts_for_bytes(b)})).collect()));
        self.emit(Value::Object(m));
    }

    fn build_event(&mut self, sid: &Value, i: usize, step: &Value, full: u8) {
        let kt = get(step, "kt").as_str().expect("kt").to_string();
        let h = get(step, "h").as_str().unwrap_or("").to_string();
        let signer = get(step, "signer").as_str().expect("signer").to_string();
        let fault = get(step, "fault").as_u64().unwrap_or(0) as usize;
        let mut tab = Tab::new();
        let (out, post, ext, facts, signs) = with_kt!(kt.as_str(), K => {
            let key = K::named(&signer).expect("signer for key type");
            keys::reset_signs(fault);
            let r = catch_unwind(AssertUnwindSafe(|| do_build::<K>(step, &key)));
            let signs = signs_json(K::TRACED);
            match r {
                Err(_) => { self.handles.remove(&h); (json!({"kind":"panic","err":"","ret":[]}), 0, json!([]), indep::no_facts(), signs) }
                Ok(Err(e)) => { self.handles.remove(&h); (err_json(&e), 0, json!([]), indep::no_facts(), signs) }
                Ok(Ok(e)) => { let (a, b, c) = self.finish_rec(&h, e, full, &mut tab); (ok_json(json!([])), a, b, c, signs) }
            }
        });
        let mut m = self.base("build", sid, i, step);
        m.insert("kt".into(), json!(kt));
        m.insert("signer".into(), json!(signer));
        m.insert("spk".into(), signer_pub_json(&signer));
        m.insert("fault".into(), json!(fault));
        let mut all_calls = get(step, "calls").as_array().cloned().unwrap_or_default();
        if get(step, "rebuild").as_bool().unwrap_or(false) {
            all_calls.extend(get(step, "calls2").as_array().cloned().unwrap_or_default());
        }
        m.insert("calls".into(), Value::Array(all_calls));
        m.insert("rebuild".into(), json!(get(step, "rebuild").as_bool().unwrap_or(false)));
        m.insert("out".into(), out);
        m.insert("signs".into(), signs);
        m.insert("post".into(), json!(post));
        m.insert("ext".into(), ext);
        m.insert("facts".into(), facts);
        m.insert("tab".into(), Value::Array(tab.0));
        self.emit(Value::Object(m));
    }

    fn call_event(&mut self, sid: &Value, i: usize, step: &Value, full: u8) {
        let h = get(step, "h").as_str().expect("h").to_string();
        let method = get(step, "m").as_str().expect("m").to_string();
        let signer = get(step, "signer").as_str().expect("signer").to_string();
        let fault = get(step, "fault").as_u64().unwrap_or(0) as usize;
        let mut args = get(step, "args").clone();
        if let Some(r) = args.get("raw") {
            if r.is_object() {
                let b = mk_bytes(r);
                args.as_object_mut().unwrap().insert("raw".into(), bytes_json(&b));
            }
        }
        let Some(mut any) = self.handles.remove(&h) else {
            // handle does not exist (its construction failed): record a skipped step
            let mut m = self.base("skip", sid, i, step);
            m.insert("x".into(), json!(0));
            self.emit(Value::Object(m));
            return;
        };
        let kt = kt_of(&any);
        let mut tab = Tab::new();
        let (out, post, ext, facts, signs) = with_any!(&mut any, e => {
            fn go<K: Slot>(e: &mut Enr<K>, method: &str, args: &Value, signer: &str, fault: usize, full: u8, tab: &mut Tab)
                -> (Value, usize, Value, Value, Value) {
                let key = K::named(signer).expect("signer for key type");
                keys::reset_signs(fault);
                let r = catch_unwind(AssertUnwindSafe(|| do_call::<K>(e, method, args, &key)));
                let signs = signs_json(K::TRACED);
                let out = r.unwrap_or_else(|_| json!({"kind":"panic","err":"","ret":[]}));
                let core = core_obs(e);
                let facts = rec_facts(&core);
                let idx = tab.put(core);
                let ext = if full > 0 { json!([ext_obs_level(e, tab, full)]) } else { json!([]) };
                (out, idx, ext, facts, signs)
            }
            go(e, &method, &args, &signer, fault, full, &mut tab)
        });
        self.handles.insert(h.clone(), any);
        let mut m = self.base("call", sid, i, step);
        m.insert("kt".into(), json!(kt));
        m.insert("m".into(), json!(method));
        m.insert("args".into(), args.clone());
        if method == "set_public_key" {
            m.insert("argpk".into(), signer_pub_json(get(&args, "pk_of").as_str().unwrap_or("")));
        }
        m.insert("signer".into(), json!(signer));
        m.insert("spk".into(), signer_pub_json(&signer));
        m.insert("fault".into(), json!(fault));
        m.insert("out".into(), out);
        m.insert("signs".into(), signs);
        m.insert("post".into(), json!(post));
        m.insert("ext".into(), ext);
        m.insert("facts".into(), facts);
        m.insert("tab".into(), Value::Array(tab.0));
        self.emit(Value::Object(m));
    }

    fn stream_event(&mut self, sid: &Value, i: usize, step: &Value) {
        // decode records back to back from one buffer until it is empty or an error occurs
        let kt = get(step, "kt").as_str().expect("kt").to_string();
        let input = mk_bytes(get(step, "input"));
        let mut tab = Tab::new();
        let res = with_kt!(kt.as_str(), K => {
            let mut buf: &[u8] = &input;
            let mut res = Vec::new();
            let mut guard = 0;
            while !buf.is_empty() && guard < 64 {
                guard += 1;
                let before = buf.len();
                let r = catch_unwind(AssertUnwindSafe(|| { let mut b2 = buf; let r = Enr::<K>::decode(&mut b2); (r, b2.len()) }));
                match r {
                    Err(_) => { res.push(json!({"kind":"panic","rest":0,"core":0})); break; }
                    Ok((Err(_), _)) => { res.push(json!({"kind":"err","rest":0,"core":0})); break; }
                    Ok((Ok(e), rest)) => {
                        let idx = tab.put(core_obs(&e));
                        res.push(json!({"kind":"ok","rest":rest,"core":idx}));
                        if rest >= before { break; }
                        buf = &buf[before - rest..];
                    }
                }
            }
            res
        });
        let mut m = self.base("stream", sid, i, step);
        m.insert("kt".into(), json!(kt));
        m.insert("input".into(), bytes_json(&input));
        m.insert("res".into(), Value::Array(res));
        m.insert("tab".into(), Value::Array(tab.0));
        m.insert("ifacts".into(), item_facts(&input, 0, input.len()));
        self.emit(Value::Object(m));
    }

    fn list_event(&mut self, sid: &Value, i: usize, step: &Value) {
        // Vec<Enr<K>>::decode of an RLP list of records
        let kt = get(step, "kt").as_str().expect("kt").to_string();
        let input = mk_bytes(get(step, "input"));
        let mut tab = Tab::new();
        let (kind, rest, cores) = with_kt!(kt.as_str(), K => {
            let r = catch_unwind(AssertUnwindSafe(|| { let mut b: &[u8] = &input; let r = Vec::<Enr<K>>::decode(&mut b); (r, b.len()) }));
            match r {
                Err(_) => ("panic", 0, vec![]),
                Ok((Err(_), _)) => ("err", 0, vec![]),
                Ok((Ok(v), rest)) => ("ok", rest, v.iter().map(|e| json!(tab.put(core_obs(e)))).collect()),
            }
        });
        let mut m = self.base("list", sid, i, step);
        m.insert("kt".into(), json!(kt));
        m.insert("input".into(), bytes_json(&input));
        m.insert("kind".into(), json!(kind));
        m.insert("rest".into(), json!(rest));
        m.insert("cores".into(), Value::Array(cores));
        m.insert("tab".into(), Value::Array(tab.0));
        // facts for the items inside the outer list
        let f = match indep::hdr(&input, 0, input.len()) {
            Some((true, ps, pl)) => item_facts(&input, ps, ps + pl),
            _ => json!([]),
        };
        m.insert("ifacts".into(), f);
        self.emit(Value::Object(m));
    }

    /// alloy_rlp::encode of a Vec of records (handles of one key type), and decoding it back
    fn enclist_event(&mut self, sid: &Value, i: usize, step: &Value) {
        let hs: Vec<String> = get(step, "hs").as_array().map(|a| a.iter().filter_map(|x| x.as_str().map(|s| s.to_string())).collect()).unwrap_or_default();
        let mut m = self.base("enclist", sid, i, step);
        if hs.is_empty() || hs.iter().any(|h| !self.handles.contains_key(h)) {
            let mut m = self.base("skip", sid, i, step);
            m.insert("x".into(), json!(0));
            self.emit(Value::Object(m));
            return;
        }
        let kt = kt_of(self.handles.get(&hs[0]).unwrap());
        if hs.iter().any(|h| kt_of(self.handles.get(h).unwrap()) != kt) {
            panic!("encode_list: key types differ");
        }
        let mut tab = Tab::new();
        let mut panics = Vec::new();
        macro_rules! go {
            ($variant:ident, $K:ty) => {{
                let v: Vec<Enr<$K>> = hs.iter().map(|h| match self.handles.get(h).unwrap() { AnyEnr::$variant(e) => e.clone(), _ => unreachable!() }).collect();
                let encs: Vec<Value> = v.iter().map(|e| bytes_json(&alloy_rlp::encode(e))).collect();
                let out = guarded("encode_vec", &mut panics, || alloy_rlp::encode(&v)).unwrap_or_default();
                let back = guarded("decode_vec", &mut panics, || { let mut b: &[u8] = &out; let r = Vec::<Enr<$K>>::decode(&mut b); (r, b.len()) });
                let (kind, rest, cores, eqs) = match back {
                    None => ("panic", 0, vec![], false),
                    Some((Err(_), _)) => ("err", 0, vec![], false),
                    Some((Ok(r), rest)) => ("ok", rest, r.iter().map(|e| json!(tab.put(core_obs(e)))).collect(), r.len() == v.len() && r.iter().zip(v.iter()).all(|(a, b)| a == b)),
                };
                let origs: Vec<Value> = v.iter().map(|e| json!(tab.put(core_obs(e)))).collect();
                (encs, out, kind, rest, cores, eqs, origs)
            }};
        }
        let (encs, out, kind, rest, cores, eqs, origs) = match kt {
            "k256" => go!(K256, k256::ecdsa::SigningKey),
            "libsecp" => go!(Lib, libsecp::SecretKey),
            "ed" => go!(Ed, ed::SigningKey),
            "comb" => go!(Comb, CombinedKey),
            _ => panic!("encode_list: unsupported key type"),
        };
        m.insert("kt".into(), json!(kt));
        m.insert("encs".into(), Value::Array(encs));
        m.insert("out".into(), bytes_json(&out));
        m.insert("kind".into(), json!(kind));
        m.insert("rest".into(), json!(rest));
        m.insert("cores".into(), Value::Array(cores));
        m.insert("origs".into(), Value::Array(origs));
        m.insert("all_eq".into(), json!(eqs));
        m.insert("tab".into(), Value::Array(tab.0));
        m.insert("panics".into(), Value::Array(panics));
        self.emit(Value::Object(m));
    }

    /// the EnrKey / EnrPublicKey surface of a named test key under one key type
    fn pubkey_event(&mut self, sid: &Value, i: usize, step: &Value) {
        let kt = get(step, "kt").as_str().expect("kt").to_string();
        let signer = get(step, "signer").as_str().expect("signer").to_string();
        let probe = jbytes(get(step, "probe"));
        let mut m = self.base("pubkey", sid, i, step);
        let mut panics = Vec::new();
        let r = with_kt!(kt.as_str(), K => {
            use enr::EnrKey;
            let key = K::named(&signer).expect("signer for key type");
            let pk = key.public();
            let enc = guarded("encode", &mut panics, || K::pub_bytes(&pk)).unwrap_or_default();
            let unc = guarded("encode_uncompressed", &mut panics, || { let u = pk.encode_uncompressed(); let r: &[u8] = u.as_ref(); r.to_vec() }).unwrap_or_default();
            let name = guarded("enr_key", &mut panics, || pk.enr_key()).unwrap_or_default();
            let nid = guarded("nodeid_from_pk", &mut panics, || NodeId::from(pk.clone()).raw()).unwrap_or([0; 32]);
            // sign / verify a probe message through the trait
            let sig = guarded("sign_v4", &mut panics, || key.sign_v4(&probe).ok()).flatten().unwrap_or_default();
            let ver = guarded("verify_v4", &mut panics, || pk.verify_v4(&probe, &sig)).unwrap_or(false);
            let mut other = probe.clone();
            other.push(1);
            let ver_other = guarded("verify_v4", &mut panics, || pk.verify_v4(&other, &sig)).unwrap_or(true);
            json!({"encode": bytes_json(&enc), "uncompressed": bytes_json(&unc), "enr_key": bytes_json(&name), "nid": bytes_json(&nid),
                   "sig": bytes_json(&sig), "verifies": ver, "verifies_other_msg": ver_other})
        });
        keys::take_signs();
        m.insert("kt".into(), json!(kt));
        m.insert("signer".into(), json!(signer));
        m.insert("spk".into(), signer_pub_json(&signer));
        m.insert("probe".into(), bytes_json(&probe));
        m.insert("r".into(), r.clone());
        // independent judgement of the signature the key produced
        let (sch, pkb) = keys::indep_pub(&signer).expect("signer");
        let sig = jbytes(&r["sig"]);
        let sm = if kt == "var" { keys::var_verify(&pkb, &probe, &sig) } else if sch == 'k' { indep::secp_sigmath_libsecp(&pkb, &probe, &sig) } else { indep::ed_sigmath(&pkb, &probe, &sig) };
        m.insert("sig_math".into(), json!(sm));
        m.insert("panics".into(), Value::Array(panics));
        self.emit(Value::Object(m));
    }

    /// EnrPublicKey::verify_v4 of every public-key type that can hold the named key, on an arbitrary (msg, sig)
    fn verifyraw_event(&mut self, sid: &Value, i: usize, step: &Value) {
        use enr::EnrKey;
        let signer = get(step, "signer").as_str().expect("signer").to_string();
        let msg = jbytes(get(step, "msg"));
        // sig: {"valid":true} (signed by the independent signer) with optional tweak / len, or {"raw":[..]}
        let sspec = get(step, "sig");
        let mut sig = if let Some(r) = sspec.get("raw") { jbytes(r) } else { keys::indep_sign(&signer, get(sspec, "over").as_array().map(|_| jbytes(get(sspec, "over"))).as_deref().unwrap_or(&msg)).expect("signer") };
        match get(sspec, "tweak").as_str().unwrap_or("none") {
            "highs" => { let s2 = indep::n_minus(&sig[32..64]); sig.splice(32..64, s2); }
            "zero_r" => sig[..32].iter_mut().for_each(|b| *b = 0),
            "zero_s" => sig[32..64].iter_mut().for_each(|b| *b = 0),
            "flip" => { let k = get(sspec, "bit").as_u64().unwrap_or(0) as usize % (sig.len().max(1) * 8); if !sig.is_empty() { sig[k / 8] ^= 1 << (k % 8); } }
            _ => {}
        }
        if let Some(n) = sspec.get("len").and_then(|x| x.as_u64()) { sig.resize(n as usize, 0x11); }
        sig_post(&mut sig, sspec);
        let (sch, pkb) = keys::indep_pub(&signer).expect("signer");
        let mut m = self.base("verifyraw", sid, i, step);
        let mut panics = Vec::new();
        let mut outs = serde_json::Map::new();
        let kts: &[&str] = if sch == 'k' { &["k256", "libsecp", "comb"] } else { &["ed", "comb"] };
        for kt in kts {
            let r = with_kt!(*kt, K => {
                let key = K::named(&signer).expect("signer for key type");
                let pk = key.public();
                guarded("verify_v4", &mut panics, || pk.verify_v4(&msg, &sig))
            });
            outs.insert(kt.to_string(), match r { Some(b) => json!([b]), None => json!([]) });
        }
        m.insert("signer".into(), json!(signer));
        m.insert("scheme".into(), json!(if sch == 'k' { "secp" } else { "ed" }));
        m.insert("msg".into(), bytes_json(&msg));
        m.insert("sig".into(), bytes_json(&sig));
        m.insert("outs".into(), Value::Object(outs));
        let (sm, sm2) = if sch == 'k' { (indep::secp_sigmath_libsecp(&pkb, &msg, &sig), indep::secp_sigmath_k256(&pkb, &msg, &sig)) } else { let x = indep::ed_sigmath(&pkb, &msg, &sig); (x, x) };
        m.insert("sm".into(), json!(sm));
        m.insert("sm2".into(), json!(sm2));
        m.insert("panics".into(), Value::Array(panics));
        self.emit(Value::Object(m));
    }

    /// EnrKeyUnambiguous::decode_public of each single-scheme key type on arbitrary bytes
    fn decpub_event(&mut self, sid: &Value, i: usize, step: &Value) {
        use enr::EnrKeyUnambiguous;
        let bytes = jbytes(get(step, "bytes"));
        let mut m = self.base("decpub", sid, i, step);
        let mut panics = Vec::new();
        let k = guarded("decode_public_k256", &mut panics, || {
            <k256::ecdsa::SigningKey as EnrKeyUnambiguous>::decode_public(&bytes).ok().map(|p| (p.encode().to_vec(), NodeId::from(p).raw()))
        })
        .flatten();
        let l = guarded("decode_public_libsecp", &mut panics, || {
            <libsecp::SecretKey as EnrKeyUnambiguous>::decode_public(&bytes).ok().map(|p| (p.encode().to_vec(), NodeId::from(p).raw()))
        })
        .flatten();
        let e = guarded("decode_public_ed", &mut panics, || {
            <ed::SigningKey as EnrKeyUnambiguous>::decode_public(&bytes).ok().map(|p| (p.encode().to_vec(), NodeId::from(p).raw()))
        })
        .flatten();
        let f = |o: Option<(Vec<u8>, [u8; 32])>| match o {
            None => json!([]),
            Some((enc, nid)) => json!([{"enc": bytes_json(&enc), "nid": bytes_json(&nid)}]),
        };
        m.insert("bytes".into(), bytes_json(&bytes));
        m.insert("k256".into(), f(k));
        m.insert("libsecp".into(), f(l));
        m.insert("ed".into(), f(e));
        let (va, vb) = indep::secp_pk_valid(&bytes);
        m.insert("facts".into(), json!({"secp_valid": va, "secp_valid2": vb, "ed_valid": indep::ed_pk_valid(&bytes),
            "secp_nid": indep::secp_nid(&bytes).map(|n| bytes_json(&n)).unwrap_or(json!([])),
            "ed_nid": indep::ed_nid(&bytes).map(|n| bytes_json(&n)).unwrap_or(json!([])),
            "secp_compressed": libsecp::PublicKey::from_slice(&bytes).map(|p| bytes_json(&p.serialize())).unwrap_or(json!([]))}));
        m.insert("panics".into(), Value::Array(panics));
        self.emit(Value::Object(m));
    }

    /// CombinedKey::generate_* : export, public key, re-import
    fn keygen_event(&mut self, sid: &Value, i: usize, step: &Value) {
        use enr::EnrKey;
        let scheme = get(step, "scheme").as_str().expect("scheme");
        let mut m = self.base("keygen", sid, i, step);
        let mut panics = Vec::new();
        let key = if scheme == "secp" { CombinedKey::generate_secp256k1() } else { CombinedKey::generate_ed25519() };
        let export = guarded("encode", &mut panics, || key.encode()).unwrap_or_default();
        let public = guarded("public", &mut panics, || key.public().encode()).unwrap_or_default();
        let pkkey = guarded("enr_key", &mut panics, || key.public().enr_key()).unwrap_or_default();
        let mut buf = export.clone();
        let re = guarded("import", &mut panics, || if scheme == "secp" { CombinedKey::secp256k1_from_bytes(&mut buf) } else { CombinedKey::ed25519_from_bytes(&mut buf) });
        let (re_ok, re_pub) = match re {
            Some(Ok(k)) => (true, k.public().encode()),
            _ => (false, vec![]),
        };
        let mut indep_pub = json!([]);
        if export.len() == 32 {
            let mut a = [0u8; 32];
            a.copy_from_slice(&export);
            if scheme == "secp" {
                if libsecp::SecretKey::from_slice(&a).is_ok() {
                    indep_pub = json!([bytes_json(&indep::secp_pub(&a))]);
                }
            } else {
                indep_pub = json!([bytes_json(&indep::ed_pub(&a))]);
            }
        }
        m.insert("scheme".into(), json!(scheme));
        m.insert("export".into(), bytes_json(&export));
        m.insert("public".into(), bytes_json(&public));
        m.insert("pkkey".into(), bytes_json(&pkkey));
        m.insert("reimport_ok".into(), json!(re_ok));
        m.insert("reimport_public".into(), bytes_json(&re_pub));
        m.insert("indep_pub".into(), indep_pub);
        m.insert("panics".into(), Value::Array(panics));
        self.emit(Value::Object(m));
    }

    fn nodeid_event(&mut self, sid: &Value, i: usize, step: &Value) {
        let mut m = self.base("nodeid", sid, i, step);
        let kind = get(step, "kind").as_str().expect("kind");
        m.insert("kind".into(), json!(kind));
        let mut panics = Vec::new();
        let obs_id = |id: &NodeId, panics: &mut Vec<Value>| -> Value {
            let raw = id.raw();
            let as_ref = id.as_ref().to_vec();
            let js = guarded("serialize", panics, || serde_json::to_string(id).unwrap_or_default()).unwrap_or_default();
            let dbg = guarded("debug", panics, || format!("{:?}", id)).unwrap_or_default();
            // the alternate flag and pretty-printing containers must not change what the id itself looks like
            let dbg_alt = guarded("debug_alt", panics, || format!("{:#?}", id)).unwrap_or_default();
            let dbg_vec_alt = guarded("debug_vec_alt", panics, || format!("{:#?}", vec![*id])).unwrap_or_default();
            let dbg_opt = guarded("debug_opt", panics, || format!("{:?}", Some(*id))).unwrap_or_default();
            let disp = guarded("display", panics, || format!("{}", id)).unwrap_or_default();
            let disp_str = guarded("to_string", panics, || id.to_string()).unwrap_or_default();
            let back = guarded("deserialize", panics, || serde_json::from_str::<NodeId>(&js).ok().map(|x| x.raw())).flatten();
            // the same JSON through the other serde_json entry points (owned value, reader, byte slice)
            let back_value = guarded("deserialize_value", panics, || {
                serde_json::from_str::<Value>(&js).ok().and_then(|v| serde_json::from_value::<NodeId>(v).ok()).map(|x| x.raw())
            })
            .flatten();
            let back_reader = guarded("deserialize_reader", panics, || serde_json::from_reader::<_, NodeId>(js.as_bytes()).ok().map(|x| x.raw())).flatten();
            let back_slice = guarded("deserialize_slice", panics, || serde_json::from_slice::<NodeId>(js.as_bytes()).ok().map(|x| x.raw())).flatten();
            // as a map key and inside a larger document
            let as_key = guarded("map_key", panics, || {
                let mut m = std::collections::HashMap::new();
                m.insert(*id, 1u8);
                let doc = serde_json::to_string(&m).unwrap_or_default();
                let back: Option<std::collections::HashMap<NodeId, u8>> = serde_json::from_str(&doc).ok();
                (doc, back.map(|b| b.contains_key(id)).unwrap_or(false))
            });
            let (key_doc, key_back) = as_key.unwrap_or_default();
            let from_arr = NodeId::from(raw).raw();
            let new_ = NodeId::new(&raw).raw();
            let eq_raw = *id == raw;
            let mut other = raw;
            other[31] ^= 1;
            let ne_other = !(*id == other);
            let mut h1 = DefaultHasher::new();
            id.hash(&mut h1);
            let mut h2 = DefaultHasher::new();
            NodeId::new(&raw).hash(&mut h2);
            json!({"raw": bytes_json(&raw), "as_ref": bytes_json(&as_ref), "json": chars_json(&js), "debug": chars_json(&dbg),
                   "debug_alt": chars_json(&dbg_alt), "debug_vec_alt": chars_json(&dbg_vec_alt), "debug_opt": chars_json(&dbg_opt),
                   "display": chars_json(&disp), "to_string": chars_json(&disp_str), "back": opt(back, |b| bytes_json(&b)),
                   "back_value": opt(back_value, |b| bytes_json(&b)), "back_reader": opt(back_reader, |b| bytes_json(&b)),
                   "back_slice": opt(back_slice, |b| bytes_json(&b)), "key_doc": chars_json(&key_doc), "key_back": key_back,
                   "from_arr": bytes_json(&from_arr),
                   "new": bytes_json(&new_), "eq_raw": eq_raw, "ne_other": ne_other, "copy_eq": *id == id.clone(),
                   "hash_eq": h1.finish() == h2.finish()})
        };
        match kind {
            "parse" => {
                let b = jbytes(get(step, "bytes"));
                m.insert("bytes".into(), bytes_json(&b));
                let r = guarded("parse", &mut panics, || NodeId::parse(&b));
                match r {
                    None => {
                        m.insert("ok".into(), json!(false));
                        m.insert("id".into(), json!([]));
                    }
                    Some(Err(_)) => {
                        m.insert("ok".into(), json!(false));
                        m.insert("id".into(), json!([]));
                    }
                    Some(Ok(id)) => {
                        m.insert("ok".into(), json!(true));
                        let o = obs_id(&id, &mut panics);
                        m.insert("id".into(), json!([o]));
                    }
                }
            }
            "new" => {
                let b = jbytes(get(step, "bytes"));
                m.insert("bytes".into(), bytes_json(&b));
                let mut a = [0u8; 32];
                a.copy_from_slice(&b);
                let id = NodeId::new(&a);
                let o = obs_id(&id, &mut panics);
                m.insert("ok".into(), json!(true));
                m.insert("id".into(), json!([o]));
            }
            "json" => {
                // deserialise a JSON document given as code points
                let text = jstr(get(step, "text"));
                m.insert("text".into(), chars_json(&text));
                let r = guarded("deserialize", &mut panics, || serde_json::from_str::<NodeId>(&text));
                let via_value = guarded("deserialize_value", &mut panics, || {
                    serde_json::from_str::<Value>(&text).ok().map(|v| serde_json::from_value::<NodeId>(v).ok().map(|x| x.raw()))
                })
                .flatten();
                let via_reader = guarded("deserialize_reader", &mut panics, || serde_json::from_reader::<_, NodeId>(text.as_bytes()).ok().map(|x| x.raw())).flatten();
                // via_value: [] = the text is not JSON at all; [[]] = JSON but refused; [[id]] = accepted
                m.insert("via_value".into(), match via_value { None => json!([]), Some(None) => json!([[]]), Some(Some(b)) => json!([[bytes_json(&b)]]) });
                m.insert("via_reader".into(), opt(via_reader, |b| bytes_json(&b)));
                match r {
                    Some(Ok(id)) => {
                        m.insert("ok".into(), json!(true));
                        let o = obs_id(&id, &mut panics);
                        m.insert("id".into(), json!([o]));
                    }
                    _ => {
                        m.insert("ok".into(), json!(false));
                        m.insert("id".into(), json!([]));
                    }
                }
            }
            _ => panic!("nodeid kind"),
        }
        m.insert("panics".into(), Value::Array(panics));
        self.emit(Value::Object(m));
    }

    fn key_event(&mut self, sid: &Value, i: usize, step: &Value) {
        let scheme = get(step, "scheme").as_str().expect("scheme");
        let input = jbytes(get(step, "bytes"));
        let mut buf = input.clone();
        let mut panics = Vec::new();
        let mut m = self.base("keyimport", sid, i, step);
        m.insert("scheme".into(), json!(scheme));
        m.insert("bytes".into(), bytes_json(&input));
        let r = guarded("import", &mut panics, || {
            if scheme == "secp" {
                CombinedKey::secp256k1_from_bytes(&mut buf)
            } else {
                CombinedKey::ed25519_from_bytes(&mut buf)
            }
        });
        // independent facts
        let mut indep_pub = json!([]);
        if input.len() == 32 {
            let mut a = [0u8; 32];
            a.copy_from_slice(&input);
            if scheme == "secp" {
                if libsecp::SecretKey::from_slice(&a).is_ok() {
                    indep_pub = json!([bytes_json(&indep::secp_pub(&a))]);
                }
            } else {
                indep_pub = json!([bytes_json(&indep::ed_pub(&a))]);
            }
        }
        m.insert("indep_pub".into(), indep_pub);
        m.insert("buf_after".into(), bytes_json(&buf));
        match r {
            Some(Ok(key)) => {
                use enr::EnrKey;
                m.insert("ok".into(), json!(true));
                let exported = guarded("encode", &mut panics, || key.encode()).unwrap_or_default();
                m.insert("export".into(), bytes_json(&exported));
                let pk = guarded("public", &mut panics, || key.public().encode()).unwrap_or_default();
                m.insert("public".into(), bytes_json(&pk));
                let pkkey = guarded("enr_key", &mut panics, || key.public().enr_key()).unwrap_or_default();
                m.insert("pkkey".into(), bytes_json(&pkkey));
                // a record built with the imported key
                let mut tab = Tab::new();
                let built = guarded("build", &mut panics, || Enr::<CombinedKey>::builder().tcp4(30303).build(&key).ok()).flatten();
                match built {
                    Some(e) => {
                        let core = core_obs(&e);
                        let facts = rec_facts(&core);
                        let idx = tab.put(core);
                        m.insert("built".into(), json!(idx));
                        m.insert("facts".into(), facts);
                    }
                    None => {
                        m.insert("built".into(), json!(0));
                        m.insert("facts".into(), indep::no_facts());
                    }
                }
                m.insert("tab".into(), Value::Array(tab.0));
            }
            _ => {
                m.insert("ok".into(), json!(false));
                m.insert("export".into(), json!([]));
                m.insert("public".into(), json!([]));
                m.insert("pkkey".into(), json!([]));
                m.insert("built".into(), json!(0));
                m.insert("facts".into(), indep::no_facts());
                m.insert("tab".into(), json!([]));
            }
        }
        m.insert("panics".into(), Value::Array(panics));
        self.emit(Value::Object(m));
    }
}

/// facts for every top-level item of b[from..to] (for streams and lists): [{"start":i,"len":n,"facts":..}]
fn item_facts(b: &[u8], from: usize, to: usize) -> Value {
    let mut out = Vec::new();
    let mut i = from;
    while i < to {
        match indep::hdr(b, i, to) {
            Some((_, ps, pl)) => {
                let end = ps + pl;
                out.push(json!({"start": i + 1, "len": end - i, "facts": indep::facts_for_bytes(&b[i..end])}));
                i = end;
            }
            None => break,
        }
    }
    Value::Array(out)
}

fn signer_pub_json(name: &str) -> Value {
    match keys::indep_pub(name) {
        Some((s, pk)) => {
            let nid = if s == 'k' { indep::secp_nid(&pk) } else { indep::ed_nid(&pk) };
            json!({"scheme": if s == 'k' { "secp" } else { "ed" }, "pk": bytes_json(&pk), "nid": bytes_json(&nid.unwrap_or([0; 32]))})
        }
        None => json!({"scheme": "", "pk": [], "nid": []}),
    }
}

const B64URL: &[u8; 64] = b"ABCDEFGHIJKLMNOPQRSTUVWXYZabcdefghijklmnopqrstuvwxyz0123456789-_";
const B64STD: &[u8; 64] = b"ABCDEFGHIJKLMNOPQRSTUVWXYZabcdefghijklmnopqrstuvwxyz0123456789+/";

/// own unpadded base64 encoder (independent of the `base64` crate)
pub fn b64url(b: &[u8], std: bool) -> String {
    let al = if std { B64STD } else { B64URL };
    let mut s = String::new();
    for c in b.chunks(3) {
        let n = c.len();
        let v = ((c[0] as u32) << 16) | ((*c.get(1).unwrap_or(&0) as u32) << 8) | (*c.get(2).unwrap_or(&0) as u32);
        s.push(al[(v >> 18) as usize & 63] as char);
        s.push(al[(v >> 12) as usize & 63] as char);
        if n > 1 {
            s.push(al[(v >> 6) as usize & 63] as char);
        }
        if n > 2 {
            s.push(al[v as usize & 63] as char);
        }
    }
    s
}

fn set_trailing_bits(last: char, nbytes: usize, tb: u8, std: bool) -> char {
    let al = if std { B64STD } else { B64URL };
    let v = al.iter().position(|c| *c as char == last).unwrap_or(0) as u8;
    let unused = match nbytes % 3 {
        1 => 4,
        2 => 2,
        _ => 0,
    };
    let mask = ((1u16 << unused) - 1) as u8;
    al[((v & !mask) | (tb & mask)) as usize] as char
}

/// lenient base64 reading used only to offer oracle facts for whatever bytes the spec may derive from a text
fn lenient_b64(s: &str) -> Option<Vec<u8>> {
    let mut acc: u32 = 0;
    let mut bits = 0;
    let mut out = Vec::new();
    for ch in s.chars() {
        let v = match ch {
            'A'..='Z' => ch as u32 - 'A' as u32,
            'a'..='z' => ch as u32 - 'a' as u32 + 26,
            '0'..='9' => ch as u32 - '0' as u32 + 52,
            '-' | '+' => 62,
            '_' | '/' => 63,
            '=' => continue,
            _ => return None,
        };
        acc = (acc << 6) | v;
        bits += 6;
        if bits >= 8 {
            bits -= 8;
            out.push((acc >> bits) as u8);
            acc &= (1 << bits) - 1;
        }
    }
    Some(out)
}

fn text_candidates(arg: &str, is_json: bool) -> Vec<Vec<u8>> {
    let mut texts: Vec<String> = vec![];
    if is_json {
        if let Ok(Value::String(s)) = serde_json::from_str::<Value>(arg) {
            texts.push(s);
        }
    } else {
        texts.push(arg.to_string());
    }
    let mut out = Vec::new();
    for t in texts {
        let body = t.strip_prefix("enr:").unwrap_or(&t);
        if let Some(b) = lenient_b64(body) {
            out.push(b);
        }
    }
    out
}
