//! Independent oracles: own keccak-256, own RLP encoder / record splitter, direct calls into the
//! crypto crates. Nothing in this file calls into `enr`'s record code (only its re-exported crypto crates).

use enr::ed25519_dalek as ed;
use enr::k256;
use enr::secp256k1 as libsecp;
use serde_json::{json, Value};

// ---------------------------------------------------------------------------------------------
// keccak-256 (own implementation of keccak-f[1600])
// ---------------------------------------------------------------------------------------------

const RC: [u64; 24] = [
    0x0000000000000001, 0x0000000000008082, 0x800000000000808a, 0x8000000080008000,
    0x000000000000808b, 0x0000000080000001, 0x8000000080008081, 0x8000000000008009,
    0x000000000000008a, 0x0000000000000088, 0x0000000080008009, 0x000000008000000a,
    0x000000008000808b, 0x800000000000008b, 0x8000000000008089, 0x8000000000008003,
    0x8000000000008002, 0x8000000000000080, 0x000000000000800a, 0x800000008000000a,
    0x8000000080008081, 0x8000000000008080, 0x0000000080000001, 0x8000000080008008,
];
const ROTC: [u32; 24] = [1, 3, 6, 10, 15, 21, 28, 36, 45, 55, 2, 14, 27, 41, 56, 8, 25, 43, 62, 18, 39, 61, 20, 44];
const PILN: [usize; 24] = [10, 7, 11, 17, 18, 3, 5, 16, 8, 21, 24, 4, 15, 23, 19, 13, 12, 2, 20, 14, 22, 9, 6, 1];

fn keccak_f(st: &mut [u64; 25]) {
    for rc in RC.iter() {
        let mut bc = [0u64; 5];
        for i in 0..5 {
            bc[i] = st[i] ^ st[i + 5] ^ st[i + 10] ^ st[i + 15] ^ st[i + 20];
        }
        for i in 0..5 {
            let t = bc[(i + 4) % 5] ^ bc[(i + 1) % 5].rotate_left(1);
            for j in (0..25).step_by(5) {
                st[j + i] ^= t;
            }
        }
        let mut t = st[1];
        for i in 0..24 {
            let j = PILN[i];
            let b = st[j];
            st[j] = t.rotate_left(ROTC[i]);
            t = b;
        }
        for j in (0..25).step_by(5) {
            let mut row = [0u64; 5];
            row.copy_from_slice(&st[j..j + 5]);
            for i in 0..5 {
                st[j + i] ^= (!row[(i + 1) % 5]) & row[(i + 2) % 5];
            }
        }
        st[0] ^= rc;
    }
}

pub fn keccak256(data: &[u8]) -> [u8; 32] {
    const RATE: usize = 136;
    let mut st = [0u64; 25];
    let mut buf = data.to_vec();
    // pad10*1 with keccak domain byte 0x01
    buf.push(0x01);
    while buf.len() % RATE != 0 {
        buf.push(0);
    }
    let n = buf.len();
    buf[n - 1] |= 0x80;
    for block in buf.chunks(RATE) {
        for i in 0..RATE / 8 {
            let mut w = [0u8; 8];
            w.copy_from_slice(&block[i * 8..i * 8 + 8]);
            st[i] ^= u64::from_le_bytes(w);
        }
        keccak_f(&mut st);
    }
    let mut out = [0u8; 32];
    for i in 0..4 {
        out[i * 8..i * 8 + 8].copy_from_slice(&st[i].to_le_bytes());
    }
    out
}

pub fn hex(b: &[u8]) -> String {
    b.iter().map(|x| format!("{:02x}", x)).collect()
}

pub fn unhex(s: &str) -> Vec<u8> {
    let s = s.as_bytes();
    assert!(s.len() % 2 == 0, "odd hex");
    let v = |c: u8| -> u8 {
        match c {
            b'0'..=b'9' => c - b'0',
            b'a'..=b'f' => c - b'a' + 10,
            b'A'..=b'F' => c - b'A' + 10,
            _ => panic!("bad hex"),
        }
    };
    s.chunks(2).map(|p| v(p[0]) * 16 + v(p[1])).collect()
}

// ---------------------------------------------------------------------------------------------
// RLP encoder over item trees
// ---------------------------------------------------------------------------------------------

#[derive(Clone, Debug)]
pub enum Item {
    S(Vec<u8>),    // byte string, canonical framing
    L(Vec<Item>),  // list, canonical framing
    X(Vec<u8>),    // verbatim bytes (possibly ill-formed)
}

pub fn enc_hdr(list: bool, len: usize, out: &mut Vec<u8>) {
    let base: u8 = if list { 0xc0 } else { 0x80 };
    if len < 56 {
        out.push(base + len as u8);
    } else {
        let be = (len as u64).to_be_bytes();
        let skip = be.iter().take_while(|b| **b == 0).count();
        out.push(base + 55 + (8 - skip) as u8);
        out.extend_from_slice(&be[skip..]);
    }
}

pub fn enc_str(s: &[u8], out: &mut Vec<u8>) {
    if s.len() == 1 && s[0] < 0x80 {
        out.push(s[0]);
    } else {
        enc_hdr(false, s.len(), out);
        out.extend_from_slice(s);
    }
}

pub fn enc_item(it: &Item, out: &mut Vec<u8>) {
    match it {
        Item::S(s) => enc_str(s, out),
        Item::X(x) => out.extend_from_slice(x),
        Item::L(l) => {
            let mut p = Vec::new();
            for i in l {
                enc_item(i, &mut p);
            }
            enc_hdr(true, p.len(), out);
            out.extend_from_slice(&p);
        }
    }
}

pub fn strip_be(b: &[u8]) -> Vec<u8> {
    let skip = b.iter().take_while(|x| **x == 0).count();
    b[skip..].to_vec()
}

pub fn seq_bytes(seq: u64) -> Vec<u8> {
    strip_be(&seq.to_be_bytes())
}

/// signed payload: list header ++ items
pub fn content_bytes(items_enc: &[u8]) -> Vec<u8> {
    let mut out = Vec::new();
    enc_hdr(true, items_enc.len(), &mut out);
    out.extend_from_slice(items_enc);
    out
}

pub fn items_from_seq_pairs(seq: &[u8], pairs: &[(Vec<u8>, Vec<u8>)]) -> Vec<u8> {
    let mut out = Vec::new();
    enc_str(seq, &mut out);
    for (k, v) in pairs {
        enc_str(k, &mut out);
        out.extend_from_slice(v); // raw RLP
    }
    out
}

// ---------------------------------------------------------------------------------------------
// minimal canonical header reader / record splitter (only used to find pk, msg, sig for the facts)
// ---------------------------------------------------------------------------------------------

/// returns (is_list, payload_start, payload_len) for the item starting at `i`, within b[..lim]
pub fn hdr(b: &[u8], i: usize, lim: usize) -> Option<(bool, usize, usize)> {
    if i >= lim {
        return None;
    }
    let c = b[i];
    let (list, ps, pl) = if c < 0x80 {
        (false, i, 1usize)
    } else if c <= 0xb7 {
        let pl = (c - 0x80) as usize;
        if pl == 1 {
            if i + 1 >= lim || b[i + 1] < 0x80 {
                return None;
            }
        }
        (false, i + 1, pl)
    } else if c <= 0xbf || c >= 0xf8 {
        let list = c >= 0xf8;
        let lol = (c - if list { 0xf7 } else { 0xb7 }) as usize;
        if lim - (i + 1) < lol {
            return None;
        }
        if b[i + 1] == 0 {
            return None;
        }
        let mut v: usize = 0;
        for k in 0..lol {
            v = v.checked_mul(256)?.checked_add(b[i + 1 + k] as usize)?;
        }
        if v < 56 {
            return None;
        }
        (list, i + 1 + lol, v)
    } else {
        (true, i + 1, (c - 0xc0) as usize)
    };
    if lim < ps || lim - ps < pl {
        return None;
    }
    Some((list, ps, pl))
}

pub struct Split {
    pub total: usize,
    pub sig: Vec<u8>,
    pub msg: Vec<u8>,
    pub secp_pk: Option<Vec<u8>>,
    pub ed_pk: Option<Vec<u8>>,
}

pub fn split_record(b: &[u8]) -> Option<Split> {
    let (list, ps, pl) = hdr(b, 0, b.len())?;
    if !list {
        return None;
    }
    let lim = ps + pl;
    let (sl, sps, spl) = hdr(b, ps, lim)?;
    if sl {
        return None;
    }
    let sig = b[sps..sps + spl].to_vec();
    let rest_start = sps + spl;
    let msg = content_bytes(&b[rest_start..lim]);
    // seq
    let (ql, qps, qpl) = hdr(b, rest_start, lim)?;
    if ql {
        return None;
    }
    let mut i = qps + qpl;
    let mut secp_pk = None;
    let mut ed_pk = None;
    while i < lim {
        let (kl, kps, kpl) = hdr(b, i, lim)?;
        if kl {
            return None;
        }
        let key = &b[kps..kps + kpl];
        let (vl, vps, vpl) = hdr(b, kps + kpl, lim)?;
        if !vl {
            if key == b"secp256k1" {
                secp_pk = Some(b[vps..vps + vpl].to_vec());
            } else if key == b"ed25519" {
                ed_pk = Some(b[vps..vps + vpl].to_vec());
            }
        }
        i = vps + vpl;
    }
    Some(Split { total: lim, sig, msg, secp_pk, ed_pk })
}

// ---------------------------------------------------------------------------------------------
// crypto facts
// ---------------------------------------------------------------------------------------------

/// standard SEC1 tag for the length (compressed 02/03, uncompressed 04)
fn std_tag(pk: &[u8]) -> bool {
    matches!((pk.len(), pk.first()), (33, Some(2)) | (33, Some(3)) | (65, Some(4)))
}

pub fn secp_pk_valid(pk: &[u8]) -> (bool, bool) {
    // (libsecp says valid, k256 says valid). The second oracle is k256's point decompression restricted to the
    // standard SEC1 tags of the given length (02/03 for 33 bytes, 04 for 65): k256 also understands the
    // x-only "compact" tag 05, which is not an encoding of a secp256k1 ENR key.
    let a = libsecp::PublicKey::from_slice(pk).is_ok();
    let b = std_tag(pk) && k256::ecdsa::VerifyingKey::from_sec1_bytes(pk).is_ok();
    (a, b)
}

/// node id by independent derivation: uncompressed point from libsecp, own keccak
pub fn secp_nid(pk: &[u8]) -> Option<[u8; 32]> {
    let p = libsecp::PublicKey::from_slice(pk).ok()?;
    let u = p.serialize_uncompressed();
    Some(keccak256(&u[1..]))
}

/// node id via the k256 back-end's point decompression (cross-check of the above)
pub fn secp_nid_k256(pk: &[u8]) -> Option<[u8; 32]> {
    use k256::elliptic_curve::sec1::ToEncodedPoint;
    if !std_tag(pk) {
        return None;
    }
    let p = k256::PublicKey::from_sec1_bytes(pk).ok()?;
    let u = p.to_encoded_point(false);
    Some(keccak256(&u.as_bytes()[1..]))
}

/// "sig is mathematically a valid ECDSA signature of keccak(msg) under pk" (any S), by libsecp
pub fn secp_sigmath_libsecp(pk: &[u8], msg: &[u8], sig: &[u8]) -> bool {
    let Ok(p) = libsecp::PublicKey::from_slice(pk) else { return false };
    if sig.len() != 64 {
        return false;
    }
    let Ok(mut s) = libsecp::ecdsa::Signature::from_compact(sig) else { return false };
    s.normalize_s();
    let m = libsecp::Message::from_digest(keccak256(msg));
    libsecp::SECP256K1.verify_ecdsa(&m, &s, &p).is_ok()
}

/// the same by k256
pub fn secp_sigmath_k256(pk: &[u8], msg: &[u8], sig: &[u8]) -> bool {
    use k256::ecdsa::signature::hazmat::PrehashVerifier;
    if !std_tag(pk) {
        return false;
    }
    let Ok(p) = k256::ecdsa::VerifyingKey::from_sec1_bytes(pk) else { return false };
    if sig.len() != 64 {
        return false;
    }
    let Ok(s) = k256::ecdsa::Signature::from_slice(sig) else { return false };
    let s = s.normalize_s().unwrap_or(s);
    p.verify_prehash(&keccak256(msg), &s).is_ok()
}

pub fn ed_pk_valid(pk: &[u8]) -> bool {
    if pk.len() != 32 {
        return false;
    }
    let mut a = [0u8; 32];
    a.copy_from_slice(pk);
    ed::VerifyingKey::from_bytes(&a).is_ok()
}

pub fn ed_sigmath(pk: &[u8], msg: &[u8], sig: &[u8]) -> bool {
    use ed::Verifier;
    if pk.len() != 32 || sig.len() != 64 {
        return false;
    }
    let mut a = [0u8; 32];
    a.copy_from_slice(pk);
    let Ok(p) = ed::VerifyingKey::from_bytes(&a) else { return false };
    let mut s = [0u8; 64];
    s.copy_from_slice(sig);
    p.verify(msg, &ed::Signature::from_bytes(&s)).is_ok()
}

pub fn ed_nid(pk: &[u8]) -> Option<[u8; 32]> {
    if ed_pk_valid(pk) {
        Some(keccak256(pk))
    } else {
        None
    }
}

pub fn bytes_json(b: &[u8]) -> Value {
    Value::Array(b.iter().map(|x| json!(*x)).collect())
}

pub fn opt_bytes_json(b: Option<&[u8]>) -> Value {
    match b {
        None => json!([]),
        Some(x) => json!([bytes_json(x)]),
    }
}

/// Facts about (msg, sig, pk entries). `var` adds the VarKey scheme's own verification.
pub fn facts(msg: &[u8], sig: &[u8], secp_pk: Option<&[u8]>, ed_pk: Option<&[u8]>) -> Value {
    let secp = match secp_pk {
        None => json!({"present": false, "pk": [], "valid": false, "valid2": false, "sm": false, "sm2": false, "nid": [], "nid2": []}),
        Some(pk) => {
            let (va, vb) = secp_pk_valid(pk);
            json!({
                "present": true,
                "pk": bytes_json(pk),
                "valid": va,
                "valid2": vb,
                "sm": secp_sigmath_libsecp(pk, msg, sig),
                "sm2": secp_sigmath_k256(pk, msg, sig),
                "nid": secp_nid(pk).map(|n| bytes_json(&n)).unwrap_or(json!([])),
                "nid2": secp_nid_k256(pk).map(|n| bytes_json(&n)).unwrap_or(json!([])),
            })
        }
    };
    let edf = match ed_pk {
        None => json!({"present": false, "pk": [], "valid": false, "sm": false, "nid": []}),
        Some(pk) => json!({
            "present": true,
            "pk": bytes_json(pk),
            "valid": ed_pk_valid(pk),
            "sm": ed_sigmath(pk, msg, sig),
            "nid": ed_nid(pk).map(|n| bytes_json(&n)).unwrap_or(json!([])),
        }),
    };
    json!({"ok": true, "msg": bytes_json(msg), "sig": bytes_json(sig), "secp": secp, "ed": edf})
}

pub fn no_facts() -> Value {
    json!({"ok": false, "msg": [], "sig": [],
        "secp": {"present": false, "pk": [], "valid": false, "valid2": false, "sm": false, "sm2": false, "nid": [], "nid2": []},
        "ed": {"present": false, "pk": [], "valid": false, "sm": false, "nid": []}})
}

pub fn facts_for_bytes(b: &[u8]) -> Value {
    match split_record(b) {
        None => no_facts(),
        Some(s) => facts(&s.msg, &s.sig, s.secp_pk.as_deref(), s.ed_pk.as_deref()),
    }
}

// ---------------------------------------------------------------------------------------------
// independent signing (deterministic)
// ---------------------------------------------------------------------------------------------

pub fn secp_sign(secret: &[u8; 32], msg: &[u8]) -> Vec<u8> {
    let sk = libsecp::SecretKey::from_slice(secret).expect("valid test secret");
    let m = libsecp::Message::from_digest(keccak256(msg));
    libsecp::SECP256K1.sign_ecdsa(&m, &sk).serialize_compact().to_vec()
}

pub fn secp_pub(secret: &[u8; 32]) -> Vec<u8> {
    let sk = libsecp::SecretKey::from_slice(secret).expect("valid test secret");
    libsecp::PublicKey::from_secret_key(libsecp::SECP256K1, &sk).serialize().to_vec()
}

pub fn secp_pub_k256(secret: &[u8; 32]) -> Option<Vec<u8>> {
    let sk = k256::ecdsa::SigningKey::from_slice(secret).ok()?;
    Some(sk.verifying_key().to_sec1_bytes().to_vec())
}

pub fn ed_sign(secret: &[u8; 32], msg: &[u8]) -> Vec<u8> {
    use ed::Signer;
    ed::SigningKey::from_bytes(secret).sign(msg).to_bytes().to_vec()
}

pub fn ed_pub(secret: &[u8; 32]) -> Vec<u8> {
    ed::SigningKey::from_bytes(secret).verifying_key().to_bytes().to_vec()
}

/// group order n of secp256k1, big-endian
pub const SECP_N: [u8; 32] = [
    0xff, 0xff, 0xff, 0xff, 0xff, 0xff, 0xff, 0xff, 0xff, 0xff, 0xff, 0xff, 0xff, 0xff, 0xff, 0xfe, 0xba, 0xae, 0xdc,
    0xe6, 0xaf, 0x48, 0xa0, 0x3b, 0xbf, 0xd2, 0x5e, 0x8c, 0xd0, 0x36, 0x41, 0x41,
];

/// n - s, big-endian (for making the high-S twin)
pub fn n_minus(s: &[u8]) -> Vec<u8> {
    let mut out = vec![0u8; 32];
    let mut borrow = 0i32;
    for i in (0..32).rev() {
        let mut d = SECP_N[i] as i32 - s[i] as i32 - borrow;
        if d < 0 {
            d += 256;
            borrow = 1;
        } else {
            borrow = 0;
        }
        out[i] = d as u8;
    }
    out
}

pub fn selfcheck() {
    // keccak test vectors
    assert_eq!(hex(&keccak256(b"")), "c5d2460186f7233c927e7db2dcc703c0e500b653ca82273b7bfad8045d85a470");
    assert_eq!(hex(&keccak256(b"abc")), "4e03657aea45a94fc7d47ba826c8d667c0d1e6e33a64a036ec44f58fa12d6c45");
    let long = vec![0x61u8; 200];
    // keccak256 of 200 'a' cross-checked between block boundaries: compare two derivations of the EIP-778 node id below
    let _ = keccak256(&long);
    // EIP-778 example key -> node id
    let sk = unhex("b71c71a67e1177ad4e901695e1b4b9ee17ae16c6668d313eac2f96dbcda3f291");
    let mut a = [0u8; 32];
    a.copy_from_slice(&sk);
    let pk = secp_pub(&a);
    assert_eq!(hex(&pk), "03ca634cae0d49acb401d8a4c6b6fe8c55b70d115bf400769cc1400f3258cd3138");
    assert_eq!(hex(&secp_nid(&pk).unwrap()), "a448f24c6d18e575453db13171562b71999873db5b286df957af199ec94617f7");
    assert_eq!(secp_nid(&pk), secp_nid_k256(&pk));
    // RFC 8032 test 1
    let esk = unhex("9d61b19deffd5a60ba844af492ec2cc44449c5697b326919703bac031cae7f60");
    let mut e = [0u8; 32];
    e.copy_from_slice(&esk);
    assert_eq!(hex(&ed_pub(&e)), "d75a980182b10ab7d54bfed3c964073a0ee172f3daa62325af021a68f707511a");
}
