-------------------------------- MODULE MC_Key --------------------------------
(* C17, bounded-exhaustive: 32-byte strings at and around the boundaries of the    *)
(* secp256k1 secret-scalar range (0, 1, n-1, n, n+1, 2^255, 2^256-1, n/2) with      *)
(* every single-byte +-1 perturbation, and every length 0..64 for ed25519.         *)
(* Checked: the byte-comparison definition ValidScalar agrees with an independent  *)
(* arithmetic one (subtraction with borrow), on every enumerated value.            *)
EXTENDS Bytes, Integers, TLC, Json

CONSTANT Emit
VARIABLES base, pos, delta, edlen
vars == <<base, pos, delta, edlen>>

One32 == Repeat(0, 31) \o <<1>>
Max32 == Repeat(255, 32)
P255  == <<128>> \o Repeat(0, 31)
NMinus1 == [SecpN EXCEPT ![32] = 64]
NPlus1  == [SecpN EXCEPT ![32] = 66]
Bases == <<Zero32, One32, NMinus1, SecpN, NPlus1, P255, Max32, SecpHalfN>>

Val == LET b == Bases[base] IN
       IF pos = 0 THEN b ELSE [b EXCEPT ![pos] = (b[pos] + 256 + delta) % 256]

\* a - b on 32-byte big-endian strings: TRUE iff a borrow leaves the most significant byte (a < b)
RECURSIVE Borrow(_, _, _, _)
Borrow(a, b, i, br) == IF i = 0 THEN br ELSE Borrow(a, b, i - 1, IF a[i] - b[i] - br < 0 THEN 1 ELSE 0)
Less(a, b) == Borrow(a, b, 32, 0) = 1

ValidArith(k) == Less(Zero32, k) /\ Less(k, SecpN)

Init == \/ /\ base \in 1..Len(Bases) /\ edlen = 32
           /\ \/ pos = 0 /\ delta = 0
              \/ pos \in 1..32 /\ delta \in {-1, 1}
        \/ base = 1 /\ pos = 0 /\ delta = 0 /\ edlen \in 0..64

Next == UNCHANGED vars
Spec == Init /\ [][Next]_vars

Props == ValidScalar(Val) <=> ValidArith(Val)

EmitCase == Emit => PrintT("CASE " \o ToJson([bytes |-> IF edlen = 32 THEN Val ELSE [i \in 1..edlen |-> (i * 37) % 256],
                                             secp |-> edlen = 32]))
=============================================================================
