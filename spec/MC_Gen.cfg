SPECIFICATION Spec
CONSTANTS
  MaxPairs = 2
  Classes = {1,2,3,4,5,6,7,8,9,10,11,12,13,14,15,16,17,18,19,20,21,22,23}
  Scheme = "secp"
  Emit = FALSE
INVARIANT ShapeProps
ACTION_CONSTRAINT EmitShape
CHECK_DEADLOCK FALSE
