------------------------------ MODULE EnrTyped ------------------------------
(* Typed accessors as functions of the raw pairs (C14). Option values are     *)
(* sequences of length 0 or 1.                                                *)
EXTENDS EnrCodec

\* the string payload stored under k when the raw value is exactly one string item
StrOf(ps, k) == StrEntry(ps, k)

\* u16 accessor: raw must be the canonical encoding of an integer below 2^16
PortOf(ps, k) ==
  LET s == StrOf(ps, k) IN
  IF s = <<>> THEN <<>>
  ELSE LET p == s[1] IN
       IF Len(p) <= 2 /\ (Len(p) > 0 => p[1] # 0) THEN <<BEToNat(p)>> ELSE <<>>

Ip4Of(ps) == LET s == StrOf(ps, K_ip)  IN IF s # <<>> /\ Len(s[1]) = 4  THEN s ELSE <<>>
Ip6Of(ps) == LET s == StrOf(ps, K_ip6) IN IF s # <<>> /\ Len(s[1]) = 16 THEN s ELSE <<>>

Tcp4Of(ps) == PortOf(ps, K_tcp)
Tcp6Of(ps) == PortOf(ps, K_tcp6)
Udp4Of(ps) == PortOf(ps, K_udp)
Udp6Of(ps) == PortOf(ps, K_udp6)

IdOf(ps) == StrOf(ps, K_id)

Sock(ip, port) == IF ip # <<>> /\ port # <<>> THEN <<[ip |-> ip[1], port |-> port[1]]>> ELSE <<>>
Udp4Sock(ps) == Sock(Ip4Of(ps), Udp4Of(ps))
Udp6Sock(ps) == Sock(Ip6Of(ps), Udp6Of(ps))
Tcp4Sock(ps) == Sock(Ip4Of(ps), Tcp4Of(ps))
Tcp6Sock(ps) == Sock(Ip6Of(ps), Tcp6Of(ps))
UdpReach(ps) == Udp4Sock(ps) # <<>> \/ Udp6Sock(ps) # <<>>
TcpReach(ps) == Tcp4Sock(ps) # <<>> \/ Tcp6Sock(ps) # <<>>

\* a raw value that is exactly one list whose elements are all strings: the sequence of their payloads
StrListOf(v) ==
  LET h == Hdr(v, 1, Len(v)) IN
  IF ~(h.ok /\ h.list /\ (h.ps - 1) + h.pl = Len(v)) THEN <<>>
  ELSE LET r == Items(v, h.ps, h.ps + h.pl - 1) IN
       IF ~r.ok \/ \E i \in 1..Len(r.items) : r.items[i].list THEN <<>>
       ELSE <<[i \in 1..Len(r.items) |-> Payload(v, r.items[i])]>>

\* EIP-7636 client entry: list of 2 or 3 strings
ClientOf(ps) ==
  IF ~HasKey(ps, K_client) THEN <<>>
  ELSE LET l == StrListOf(Lookup(ps, K_client)) IN
       IF l = <<>> THEN <<>>
       ELSE IF Len(l[1]) = 2 THEN <<[n |-> l[1][1], v |-> l[1][2], b |-> <<>>]>>
       ELSE IF Len(l[1]) = 3 THEN <<[n |-> l[1][1], v |-> l[1][2], b |-> <<l[1][3]>>]>>
       ELSE <<>>

IsAscii(s) == \A i \in 1..Len(s) : s[i] < 128

=============================================================================
