------------------------------- MODULE MC_Hist -------------------------------
(* Bounded histories of the record state machine (Enr!Apply) with abstract       *)
(* signatures, explored exhaustively by TLC.                                     *)
(*   state      r    : the record            [seq, pairs, sig, nid]              *)
(*              s    : a snapshot (clone) of an earlier state, for C15           *)
(*              d    : number of updates so far                                  *)
(*              last : observation of the last call (hidden by the VIEW)         *)
(* A signature is the abstract value [by, seq, pairs, n]: who signed which       *)
(* content (n distinguishes re-signings of randomized schemes). Perfect crypto:  *)
(* it is valid for exactly that content under exactly that key.                  *)
(* Dev selects a named deviation (what the code did before the fix: commits);    *)
(* with Dev # "none" TLC must find the corresponding invariant violated.         *)
EXTENDS Enr, KeysGen, TLC, Json

CONSTANTS MaxDepth,   \* bound on the number of updates
          KT,         \* key type under which records are re-decoded: "k256" | "ed"
          Dev,        \* "none" or a named deviation
          Emit        \* TRUE: print one line per (state, call) for replay against the implementation

VARIABLES r, s, d, last
vars == <<r, s, d, last>>
View == <<r, s, d>>

\* KT: "k256" | "ed" | "comb_secp" (CombinedKey, record of a secp256k1 key) | "comb_ed" (CombinedKey, ed25519 key)
KTBase == IF KT \in {"comb_secp", "comb_ed"} THEN "comb" ELSE KT
Own   == IF KT \in {"ed", "comb_ed"} THEN E1 ELSE K1
Other == IF KT \in {"ed", "comb_ed"} THEN E2 ELSE K2
\* a key of the other scheme (only meaningful for CombinedKey)
Cross == IF KT \in {"ed", "comb_ed"} THEN K3 ELSE E2
SignerOf(n) == IF n = "own" THEN Own ELSE IF n = "cross" THEN Cross ELSE Other

X(str) == str   \* readability only

K_x    == <<120>>
K_zpad == <<122,112,97,100>>
K_zpae == <<122,112,97,101>>
Junk33 == <<2>> \o Repeat(255, 32)

(***************************************************************************)
(* abstract signatures and their facts                                     *)
(***************************************************************************)
AbsSig(by, seq, pairs, n) == [by |-> by.name, seq |-> seq, pairs |-> pairs, n |-> n]

\* a concrete, low-S looking 64-byte string that is different for different abstract signatures
SigBytes(sig) == Repeat(1, 61) \o <<(IF sig.by \in {"k1", "e1"} THEN 1 ELSE 2), 1 + (sig.n \div 100), 1 + (sig.n % 100)>>

\* perfect cryptography: the signature is valid for exactly the content it was made over, under its maker's key
AbsValid(rec) ==
  LET by == SignerByName(rec.sig.by) IN
  /\ rec.sig.seq = rec.seq /\ rec.sig.pairs = rec.pairs
  /\ StrEntry(rec.pairs, PkKeyOf(by.scheme)) = <<by.pk>>

KnownPk(scheme) == IF scheme = "secp" THEN {K1.pk, K2.pk, K3.pk} ELSE {E1.pk, E2.pk}
NidOfPk(pk) ==
  CASE pk = K1.pk -> K1.nid [] pk = K2.pk -> K2.nid [] pk = K3.pk -> K3.nid
    [] pk = E1.pk -> E1.nid [] pk = E2.pk -> E2.nid [] OTHER -> <<>>

FactsOf(rec) ==
  LET sp == StrEntry(rec.pairs, K_secp256k1)
      ep == StrEntry(rec.pairs, K_ed25519)
      by == SignerByName(rec.sig.by)
      content == rec.sig.seq = rec.seq /\ rec.sig.pairs = rec.pairs
      sv == sp # <<>> /\ sp[1] \in KnownPk("secp")
      ev == ep # <<>> /\ ep[1] \in KnownPk("ed")
      ssm == sv /\ content /\ by.scheme = "secp" /\ sp[1] = by.pk
      esm == ev /\ content /\ by.scheme = "ed" /\ ep[1] = by.pk
  IN [ok |-> TRUE, msg |-> Content(rec.seq, rec.pairs), sig |-> SigBytes(rec.sig),
      secp |-> [present |-> sp # <<>>, pk |-> IF sp # <<>> THEN sp[1] ELSE <<>>, valid |-> sv, valid2 |-> sv,
                sm |-> ssm, sm2 |-> ssm,
                nid |-> IF sv THEN NidOfPk(sp[1]) ELSE <<>>, nid2 |-> IF sv THEN NidOfPk(sp[1]) ELSE <<>>],
      ed |-> [present |-> ep # <<>>, pk |-> IF ep # <<>> THEN ep[1] ELSE <<>>, valid |-> ev, sm |-> esm,
              nid |-> IF ev THEN NidOfPk(ep[1]) ELSE <<>>]]

EncodeAbs(rec) == Encode(rec.seq, rec.pairs, SigBytes(rec.sig))

(***************************************************************************)
(* initial records and the alphabet of calls                               *)
(***************************************************************************)
Mk(seq, extra, by) ==
  LET pairs == Put(Put(extra, K_id, EncStr(V_v4)), PkKeyOf(by.scheme), EncStr(by.pk)) IN
  [seq |-> seq, pairs |-> pairs, sig |-> AbsSig(by, seq, pairs, 0), nid |-> by.nid]

IpUdp == Put(Put(<<>>, K_ip, EncStr(<<127,0,0,1>>)), K_udp, EncStr(<<118,95>>))
AllAddr == Put(Put(Put(Put(IpUdp, K_ip6, EncStr(Repeat(0, 15) \o <<1>>)), K_tcp, EncStr(<<80>>)), K_tcp6, EncStr(<<1,0>>)), K_udp6, EncStr(<<>>))
WithX == Put(IpUdp, K_x, EncStr(<<7>>))
\* filler so that the record is close to the limit (sizes are checked below by ASSUME-free invariants)
Big(n) == Put(<<>>, K_zpad, EncStr(Repeat(170, n)))

Inits == <<Mk(<<1>>, <<>>, Own), Mk(<<>>, IpUdp, Own), Mk(<<127>>, AllAddr, Own), Mk(<<255>>, WithX, Own),
           Mk(<<255,255>>, IpUdp, Own), Mk(U64Max, IpUdp, Own), Mk(SubSeq(U64Max, 1, 7) \o <<254>>, <<>>, Own),
           Mk(<<127>>, Big(173), Own), Mk(<<1>>, Big(172), Own), Mk(<<255,255,255,255>>, Big(150), Own)>>

C(m, args, signer, fault) == [m |-> m, args |-> args, signer |-> signer, fault |-> fault]
NoArg == [x |-> 0]
Bv(v) == [ty |-> "bytes", v |-> v]

CallsCore == <<
  C("set_seq", [seq |-> <<>>], "own", 0), C("set_seq", [seq |-> <<1,0>>], "own", 0), C("set_seq", [seq |-> U64Max], "own", 0),
  C("set_seq", [seq |-> <<9>>], "other", 0), C("set_seq", [seq |-> <<9>>], "own", 1),
  C("insert", [key |-> K_tcp, val |-> [ty |-> "u16", v |-> 80]], "own", 0),
  C("insert", [key |-> K_tcp, val |-> Bv(<<0, 80>>)], "own", 0),
  C("insert", [key |-> K_udp6, val |-> Bv(<<1, 0, 0>>)], "own", 0),
  C("insert", [key |-> K_ip, val |-> Bv(<<10,0,0,1>>)], "own", 0),
  C("insert", [key |-> K_ip, val |-> Bv(<<10,0,1>>)], "own", 0),
  C("insert", [key |-> K_ip6, val |-> Bv(<<10,0,0,1>>)], "own", 0),
  C("insert", [key |-> K_id, val |-> Bv(V_v4)], "own", 0),
  C("insert", [key |-> K_id, val |-> Bv(<<118,53>>)], "own", 0),
  C("insert", [key |-> K_x, val |-> Bv(<<1>>)], "own", 0),
  C("insert", [key |-> K_x, val |-> Bv(<<1>>)], "other", 0),
  C("insert", [key |-> K_x, val |-> Bv(<<200>>)], "own", 1),
  C("insert", [key |-> K_x, val |-> [ty |-> "list", v |-> <<<<1>>, <<>>>>]], "own", 0),
  C("insert", [key |-> <<>>, val |-> Bv(<<5,6>>)], "own", 0),
  C("insert", [key |-> K_zpae, val |-> Bv(Repeat(187, 120))], "own", 0),
  C("insert_raw_rlp", [key |-> K_x, raw |-> <<131, 1>>], "own", 0),
  C("insert_raw_rlp", [key |-> K_x, raw |-> <<>>], "own", 0),
  C("insert_raw_rlp", [key |-> K_x, raw |-> <<1, 2>>], "own", 0),
  C("insert_raw_rlp", [key |-> K_x, raw |-> <<193, 128>>], "own", 0),
  C("insert_raw_rlp", [key |-> K_tcp, raw |-> <<1, 2>>], "own", 0),
  C("insert_raw_rlp", [key |-> K_udp, raw |-> <<130, 0, 1>>], "own", 0),
  C("insert_raw_rlp", [key |-> K_udp, raw |-> <<130, 1, 0>>], "own", 0),
  C("insert_raw_rlp", [key |-> K_id, raw |-> <<193, 128>>], "own", 0),
  C("set_ip", [ip |-> <<192,168,0,1>>], "own", 0), C("set_ip", [ip |-> Repeat(254, 16)], "own", 0),
  C("set_udp4", [port |-> 0], "own", 0), C("set_udp6", [port |-> 65535], "own", 0),
  C("set_tcp4", [port |-> 256], "own", 0), C("set_tcp6", [port |-> 127], "other", 0),
  C("remove_udp4", NoArg, "own", 0), C("remove_udp6", NoArg, "own", 0), C("remove_tcp", NoArg, "own", 0),
  C("remove_tcp6", NoArg, "own", 1),
  C("set_client_info", [name |-> <<103,101,116,104>>, version |-> <<49>>, build |-> <<>>], "own", 0),
  C("set_client_info", [name |-> <<>>, version |-> <<49>>, build |-> <<<<98>>>>], "own", 0),
  C("set_udp_socket", [ip |-> <<1,2,3,4>>, port |-> 30303], "own", 0),
  C("set_udp_socket", [ip |-> Repeat(1, 16), port |-> 1], "own", 0),
  C("set_tcp_socket", [ip |-> <<1,2,3,4>>, port |-> 65535], "other", 0),
  C("set_tcp_socket", [ip |-> Repeat(1, 16), port |-> 0], "own", 1),
  C("remove_udp_socket", NoArg, "own", 0), C("remove_udp6_socket", NoArg, "own", 0),
  C("remove_tcp_socket", NoArg, "own", 0), C("remove_tcp6_socket", NoArg, "other", 0),
  C("remove_key", [key |-> K_id], "own", 0), C("remove_key", [key |-> K_x], "own", 0),
  C("remove_key", [key |-> K_zpad], "own", 0), C("remove_key", [key |-> <<97,98,115>>], "own", 0),
  C("remove_insert", [remove |-> <<>>, insert |-> <<>>], "own", 0),
  C("remove_insert", [remove |-> <<K_ip, K_udp>>, insert |-> <<<<K_tcp, <<80>>>>>>], "own", 0),
  C("remove_insert", [remove |-> <<>>, insert |-> <<<<K_ip, <<1,2,3>>>>>>], "own", 0),
  C("remove_insert", [remove |-> <<>>, insert |-> <<<<K_tcp, <<0,1>>>>>>], "own", 0),
  C("remove_insert", [remove |-> <<K_x, K_x>>, insert |-> <<<<K_x, <<1>>>>, <<K_x, <<2>>>>>>], "own", 0),
  C("remove_insert", [remove |-> <<K_udp>>, insert |-> <<<<K_id, <<118,53>>>>>>], "own", 0),
  C("remove_insert", [remove |-> <<K_id>>, insert |-> <<>>], "own", 0),
  C("remove_insert", [remove |-> <<K_zpad>>, insert |-> <<<<K_zpae, Repeat(1, 30)>>>>], "other", 0),
  C("set_public_key", [pk_of |-> "own"], "own", 0), C("set_public_key", [pk_of |-> "other"], "own", 0),
  C("set_public_key", [pk_of |-> "own"], "other", 0)
>>

\* calls that involve the signer's public-key key by name (depend on the scheme)
CallsPk == <<
  C("insert", [key |-> PkKeyOf(Own.scheme), val |-> Bv(Own.pk)], "own", 0),
  C("insert", [key |-> PkKeyOf(Own.scheme), val |-> Bv(Junk33)], "own", 0),
  C("insert_raw_rlp", [key |-> PkKeyOf(Own.scheme), raw |-> <<193, 128>>], "own", 0),
  C("remove_key", [key |-> PkKeyOf(Own.scheme)], "own", 0),
  C("remove_insert", [remove |-> <<>>, insert |-> <<<<PkKeyOf(Own.scheme), Junk33>>>>], "own", 0)
>>

\* CombinedKey: updates signed with / public-key changes to a key of the OTHER scheme
CallsCross == <<
  C("set_seq", [seq |-> <<7>>], "cross", 0),
  C("insert", [key |-> K_x, val |-> Bv(<<3>>)], "cross", 0),
  C("remove_key", [key |-> K_x], "cross", 0),
  C("remove_key", [key |-> PkKeyOf(Own.scheme)], "cross", 0),
  C("set_udp_socket", [ip |-> <<9,9,9,9>>, port |-> 9], "cross", 0),
  C("remove_insert", [remove |-> <<K_udp>>, insert |-> <<<<K_tcp, <<81>>>>>>], "cross", 0),
  C("set_public_key", [pk_of |-> "cross"], "own", 0),
  C("set_public_key", [pk_of |-> "cross"], "cross", 0),
  C("set_public_key", [pk_of |-> "own"], "cross", 0),
  C("insert", [key |-> PkKeyOf(Cross.scheme), val |-> Bv(Cross.pk)], "own", 0),
  C("remove_key", [key |-> PkKeyOf(Cross.scheme)], "own", 0)
>>

Calls == CallsCore \o CallsPk \o (IF KTBase = "comb" THEN CallsCross ELSE <<>>)

(***************************************************************************)
(* named deviations: what the implementation did before the fix: commits   *)
(***************************************************************************)
InsertFamily == {"insert", "insert_raw_rlp", "set_ip", "set_udp4", "set_udp6", "set_tcp4", "set_tcp6",
                 "set_client_info", "set_public_key"}

\* the model's call record for Enr!Apply
Full(c0) == [m |-> c0.m, args |-> c0.args, spk |-> SignerOf(c0.signer),
             argpk |-> IF c0.m = "set_public_key" THEN SignerOf(c0.args.pk_of) ELSE <<>>,
             fault |-> c0.fault, siglen |-> 64, kt |-> KTBase]

\* RawUnchecked: custom keys accept any bytes; RemoveInsertUnchecked: only id and ports are checked in remove_insert
DevTyped(c, A) ==
  IF Dev = "RawUnchecked" /\ c.m = "insert_raw_rlp" /\ c.args.key \notin
        {K_id, K_ip, K_ip6, K_tcp, K_tcp6, K_udp, K_udp6, K_secp256k1}
  THEN [A EXCEPT !.hard = A.hard \ {"InvalidRlpData"}, !.typedErr = FALSE]
  ELSE IF Dev = "RemoveInsertUnchecked" /\ c.m = "remove_insert"
          /\ \A i \in 1..Len(c.args.insert) : c.args.insert[i][1] \notin ({K_id} \cup PortKeys)
  THEN [A EXCEPT !.hard = A.hard \ {"InvalidRlpData"}, !.typedErr = FALSE]
  ELSE A

ApplyDev(rec, c) ==
  LET A == DevTyped(c, Apply(rec, c)) IN
  IF Dev = "SetSeqKeepsPk" /\ c.m = "set_seq"
  THEN [A EXCEPT !.pairs = rec.pairs]          \* the signer's public key is not written
  ELSE A

(***************************************************************************)
(* the machine                                                             *)
(***************************************************************************)
None == [none |-> TRUE]

Init ==
  /\ r \in {Inits[i] : i \in 1..Len(Inits)}
  /\ s = None /\ d = 0
  /\ last = [kind |-> "init", err |-> "", pre |-> None, m |-> "", i |-> 0]

Commit(A, c, n) == [seq |-> A.seq, pairs |-> A.pairs, sig |-> AbsSig(c.spk, A.seq, A.pairs, n), nid |-> c.spk.nid]

Step(i) ==
  LET c == Full(Calls[i])
      A == ApplyDev(r, c)
      mayFail == A.hard \cup A.soft
      \* a shadowed candidate is refused (the soft SigningError) -- unless the deviation of the unfixed code is selected
      mayOk == A.hard = {} /\ (A.shadow => Dev = "NoShadowCheck")
  IN
  /\ d < MaxDepth
  /\ d' = d + 1
  /\ s' = s
  /\ \/ /\ mayOk
        /\ r' = Commit(A, c, d + 1)
        /\ last' = [kind |-> "ok", err |-> "", pre |-> r, m |-> c.m, i |-> i]
     \/ \E e \in mayFail :
        /\ last' = [kind |-> "err", err |-> e, pre |-> r, m |-> c.m, i |-> i]
        /\ r' = IF Dev = "InsertInPlace" /\ c.m \in InsertFamily /\ ~A.typedErr
                THEN \* the pair and the public key were written before the fallible steps
                     [r EXCEPT !.pairs = A.pairs]
                ELSE r

Snapshot ==
  /\ s = None /\ s' = r /\ UNCHANGED <<r, d>>
  /\ last' = [kind |-> "snap", err |-> "", pre |-> r, m |-> "", i |-> 0]

Next == (\E i \in 1..Len(Calls) : Step(i)) \/ Snapshot

Spec == Init /\ [][Next]_vars

(***************************************************************************)
(* properties                                                              *)
(***************************************************************************)
\* C05: every reachable record is valid and is accepted again by the decoder
InvValid ==
  LET D == Decode(KTBase, EncodeAbs(r), FactsOf(r)) IN
  /\ AbsValid(r)
  /\ StrEntry(r.pairs, K_id) = <<V_v4>>
  /\ D.verdict = "accept"
  /\ D.seq = r.seq /\ D.pairs = r.pairs /\ D.nid = r.nid
  /\ IsSortedPairs(r.pairs)

\* C09: never above 300 bytes
InvSize == Len(EncodeAbs(r)) <= MaxSize /\ Len(EncodeAbs(r)) = EncLenOf(r.seq, r.pairs, 64)

\* C10: the node id is a function of the public-key entry alone
InvNid == r.nid = NidOfPk(StrEntry(r.pairs, PkKeyOf(SignerByName(r.sig.by).scheme))[1])

\* The next three are properties of transitions; they are evaluated on every generated transition through
\* the action constraint ActProps (an invariant would only see the first transition into a VIEW-equal state).
\* C06: a failed call leaves the record untouched
ActAtomic == last'.kind = "err" => r' = r

\* C07: +1 per successful update (set_seq: exact), never wraps
ActSeq ==
  last'.kind = "ok" =>
     IF last'.m = "set_seq" THEN r'.seq = StripBE(Calls[last'.i].args.seq)
     ELSE ~IsMaxU64(r.seq) /\ r'.seq = IncBE(r.seq)

\* C05 (re-keying): after a successful update the record belongs to the signer of that update
ActRekey ==
  last'.kind = "ok" =>
     LET sp == SignerOf(Calls[last'.i].signer) IN
     r'.nid = sp.nid /\ r'.sig.by = sp.name /\ StrEntry(r'.pairs, PkKeyOf(sp.scheme)) = <<sp.pk>>

\* C08: a successful update changes exactly what the sorted-map model says (stated against an independent
\* reading of the call: the touched keys are the only ones whose value may differ)
Touched(c) ==
  CASE c.m \in {"insert", "insert_raw_rlp", "remove_key"} -> {c.args.key}
    [] c.m = "set_ip" -> {IF Len(c.args.ip) = 4 THEN K_ip ELSE K_ip6}
    [] c.m \in {"set_udp4", "remove_udp4"} -> {K_udp}
    [] c.m \in {"set_udp6", "remove_udp6"} -> {K_udp6}
    [] c.m \in {"set_tcp4", "remove_tcp"} -> {K_tcp}
    [] c.m \in {"set_tcp6", "remove_tcp6"} -> {K_tcp6}
    [] c.m = "set_client_info" -> {K_client}
    [] c.m = "set_udp_socket" -> IF Len(c.args.ip) = 4 THEN {K_ip, K_udp} ELSE {K_ip6, K_udp6}
    [] c.m = "set_tcp_socket" -> IF Len(c.args.ip) = 4 THEN {K_ip, K_tcp} ELSE {K_ip6, K_tcp6}
    [] c.m = "remove_udp_socket" -> {K_ip, K_udp}
    [] c.m = "remove_udp6_socket" -> {K_ip6, K_udp6}
    [] c.m = "remove_tcp_socket" -> {K_ip, K_tcp}
    [] c.m = "remove_tcp6_socket" -> {K_ip6, K_tcp6}
    [] c.m = "remove_insert" -> {c.args.remove[j] : j \in 1..Len(c.args.remove)}
                                \cup {c.args.insert[j][1] : j \in 1..Len(c.args.insert)}
    [] c.m = "set_public_key" -> {PkKeyOf(SignerOf(c.args.pk_of).scheme)}
    [] OTHER -> {}

ActFrame ==
  last'.kind = "ok" =>
     LET c == Calls[last'.i]
         free == Touched(c) \cup {PkKeyOf(SignerOf(c.signer).scheme)}
         keysOf(ps) == {ps[j][1] : j \in 1..Len(ps)}
     IN \A k \in (keysOf(r.pairs) \cup keysOf(r'.pairs)) \ free :
           HasKey(r.pairs, k) /\ HasKey(r'.pairs, k) /\ Lookup(r.pairs, k) = Lookup(r'.pairs, k)

ActProps ==
  /\ Assert(ActAtomic, <<"C06 violated by call", last'.i, last'.m>>)
  /\ Assert(ActSeq, <<"C07 violated by call", last'.i, last'.m>>)
  /\ Assert(ActRekey, <<"C05 (re-keying) violated by call", last'.i, last'.m>>)
  /\ Assert(ActFrame, <<"C08 (frame) violated by call", last'.i, last'.m>>)

\* C15: what the implementation's == compares (seq, node id, signature) determines the whole record
ImplEq(a, b) == a.seq = b.seq /\ a.nid = b.nid /\ a.sig = b.sig
InvEq == s # None => (ImplEq(r, s) => (r.pairs = s.pairs /\ EncodeAbs(r) = EncodeAbs(s)))

\* C03: the machine is total: every call of the alphabet has an outcome in every reachable state
InvTotal == d < MaxDepth => \A i \in 1..Len(Calls) :
               LET A == ApplyDev(r, Full(Calls[i])) IN A.hard = {} \/ (A.hard \cup A.soft) # {}

\* spec -> impl: one line per (distinct state, call of the alphabet)
EmitT ==
  (Emit /\ last'.kind \in {"ok", "err"} /\ last'.kind # "xx") =>
     PrintT("T " \o ToJson([seq |-> r.seq, pairs |-> r.pairs, by |-> r.sig.by, call |-> Calls[last'.i]]))

=============================================================================
