SPECIFICATION Spec
INVARIANTS PortProps ComboProps
CHECK_DEADLOCK FALSE
