----------------------------- MODULE Base64Url -----------------------------
(* Unpadded URL-safe base64 over character codes: encoder and STRICT decoder  *)
(* (alphabet A-Z a-z 0-9 - _ only, no padding, length mod 4 # 1, unused       *)
(* trailing bits zero).                                                       *)
EXTENDS BytesCore

B64Char(v) ==
  IF v < 26 THEN 65 + v
  ELSE IF v < 52 THEN 97 + (v - 26)
  ELSE IF v < 62 THEN 48 + (v - 52)
  ELSE IF v = 62 THEN 45 ELSE 95

\* 64 = not in the alphabet
B64Val(c) ==
  IF c >= 65 /\ c <= 90 THEN c - 65
  ELSE IF c >= 97 /\ c <= 122 THEN c - 71
  ELSE IF c >= 48 /\ c <= 57 THEN c + 4
  ELSE IF c = 45 THEN 62
  ELSE IF c = 95 THEN 63
  ELSE 64

B64Enc(b) ==
  LET n == Len(b)
      m == 4 * (n \div 3) + (IF n % 3 = 0 THEN 0 ELSE (n % 3) + 1)
      at(i) == IF i <= n THEN b[i] ELSE 0
      ch(p) == LET g == (p - 1) \div 4  k == (p - 1) % 4
                   v == at(3 * g + 1) * 65536 + at(3 * g + 2) * 256 + at(3 * g + 3)
               IN B64Char(IF k = 0 THEN v \div 262144
                          ELSE IF k = 1 THEN (v \div 4096) % 64
                          ELSE IF k = 2 THEN (v \div 64) % 64
                          ELSE v % 64)
  IN [p \in 1..m |-> ch(p)]

B64Dec(cs) ==
  LET m == Len(cs)
      r == m % 4
      vals == [i \in 1..m |-> B64Val(cs[i])]
      at(i) == IF i <= m THEN vals[i] ELSE 0
      n == 3 * (m \div 4) + (IF r = 0 THEN 0 ELSE r - 1)
      by(p) == LET g == (p - 1) \div 3  k == (p - 1) % 3
                   v == at(4 * g + 1) * 262144 + at(4 * g + 2) * 4096 + at(4 * g + 3) * 64 + at(4 * g + 4)
               IN IF k = 0 THEN v \div 65536 ELSE IF k = 1 THEN (v \div 256) % 256 ELSE v % 256
  IN IF \E i \in 1..m : vals[i] = 64 THEN [ok |-> FALSE, bytes |-> <<>>]
     ELSE IF r = 1 THEN [ok |-> FALSE, bytes |-> <<>>]
     ELSE IF r = 2 /\ vals[m] % 16 # 0 THEN [ok |-> FALSE, bytes |-> <<>>]
     ELSE IF r = 3 /\ vals[m] % 4 # 0 THEN [ok |-> FALSE, bytes |-> <<>>]
     ELSE [ok |-> TRUE, bytes |-> [p \in 1..n |-> by(p)]]

\* text form of a record encoding
TextOf(enc) == C_enr \o B64Enc(enc)

\* strict parse of a text form: optional "enr:" prefix, removed once
TextBody(cs) == IF IsPrefixOf(C_enr, cs) THEN SubSeq(cs, 5, Len(cs)) ELSE cs
ParseText(cs) == IF Len(cs) < 4 THEN [ok |-> FALSE, bytes |-> <<>>] ELSE B64Dec(TextBody(cs))

=============================================================================
