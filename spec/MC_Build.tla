------------------------------- MODULE MC_Build -------------------------------
(* Bounded-exhaustive model of the builder (Enr!Build): every sequence of up to    *)
(* MaxCalls builder calls from an alphabet with well-typed, ill-typed and malformed *)
(* entries, sequence numbers and fillers.  Checked on every sequence:               *)
(*   - whatever the builder hands out is valid: the decoder-shaped rule accepts its *)
(*     encoding and returns exactly the model's fields (C05, C04), within 300 bytes *)
(*     (C09);                                                                       *)
(*   - the pairs are the builder's pairs (last write per key wins) plus id = v4 and *)
(*     the signer's public key (C08), stated against an independent fold;           *)
(*   - calls that write different keys commute (C08: a map, not a log).             *)
(* Every sequence is printed for replay against the implementation.                 *)
EXTENDS Enr, KeysGen, TLC, Json

CONSTANTS MaxCalls, KT, Emit,
          Dev     \* "none", or "BuilderUnchecked": the builder before commit b10bc00 (no per-key checks)

VARIABLE calls
vars == <<calls>>

Own == IF KT = "ed" THEN E1 ELSE K1
K_x == <<120>>
K_zpad == <<122, 112, 97, 100>>
Bv(v) == [ty |-> "bytes", v |-> v]

Alphabet == <<
  [m |-> "seq", seq |-> <<>>], [m |-> "seq", seq |-> <<255, 255>>], [m |-> "seq", seq |-> Repeat(255, 8)],
  [m |-> "ip", ip |-> <<10, 0, 0, 1>>], [m |-> "ip", ip |-> Repeat(1, 16)], [m |-> "ip4", ip |-> <<0, 0, 0, 0>>],
  [m |-> "ip6", ip |-> Repeat(0, 10) \o <<255, 255, 1, 2, 3, 4>>],
  [m |-> "tcp4", port |-> 0], [m |-> "tcp4", port |-> 65535], [m |-> "udp4", port |-> 256], [m |-> "udp6", port |-> 127],
  [m |-> "tcp6", port |-> 128],
  [m |-> "client_info", name |-> <<103>>, version |-> <<49>>, build |-> <<>>],
  [m |-> "client_info", name |-> <<>>, version |-> <<>>, build |-> <<<<98>>>>],
  [m |-> "add_value", key |-> K_x, val |-> Bv(<<1>>)],
  [m |-> "add_value", key |-> K_x, val |-> [ty |-> "list", v |-> <<<<1>>, <<>>>>]],
  [m |-> "add_value", key |-> K_tcp, val |-> Bv(<<0, 80>>)],               \* ill-typed port
  [m |-> "add_value", key |-> K_ip, val |-> Bv(<<1, 2, 3>>)],              \* ill-typed address
  [m |-> "add_value", key |-> K_id, val |-> Bv(<<118, 53>>)],              \* overwritten by the builder: unspecified
  [m |-> "add_value", key |-> <<>>, val |-> Bv(<<7>>)],
  [m |-> "add_value_rlp", key |-> K_x, raw |-> <<1, 2>>],                  \* two items
  [m |-> "add_value_rlp", key |-> K_x, raw |-> <<>>],
  [m |-> "add_value_rlp", key |-> K_x, raw |-> <<193, 128>>],
  [m |-> "add_value_rlp", key |-> K_udp, raw |-> <<130, 1, 0>>],
  [m |-> "add_value", key |-> K_zpad, val |-> Bv(Repeat(170, 160))],       \* filler: near the limit
  [m |-> "add_value", key |-> K_zpad, val |-> Bv(Repeat(170, 190))] >>     \* filler: beyond the limit

Init == calls = <<>>
Next == Len(calls) < MaxCalls /\ \E i \in 1..Len(Alphabet) : calls' = Append(calls, i)
Spec == Init /\ [][Next]_vars

CallSeq == [i \in 1..Len(calls) |-> Alphabet[calls[i]]]

\* an independent reading of the builder: which key each call writes, the last writer per key wins
KeyOfCall(c) ==
  CASE c.m \in {"ip", "ip4", "ip6"} -> IF Len(c.ip) = 4 THEN K_ip ELSE K_ip6
    [] c.m = "tcp4" -> K_tcp [] c.m = "tcp6" -> K_tcp6 [] c.m = "udp4" -> K_udp [] c.m = "udp6" -> K_udp6
    [] c.m = "client_info" -> K_client
    [] c.m \in {"add_value", "add_value_rlp"} -> c.key
    [] OTHER -> <<255, 255, 255>>          \* "seq" writes no key
WrittenKeys == {KeyOfCall(CallSeq[i]) : i \in {j \in 1..Len(calls) : CallSeq[j].m # "seq"}}

\* abstract facts of the built record (perfect cryptography, signer Own)
FactsOfBuilt(seq, pairs, sig) ==
  LET sp == StrEntry(pairs, K_secp256k1)  ep == StrEntry(pairs, K_ed25519)
      sv == sp # <<>> /\ sp[1] = K1.pk
      ev == ep # <<>> /\ ep[1] = E1.pk
  IN [ok |-> TRUE, msg |-> Content(seq, pairs), sig |-> sig,
      secp |-> [present |-> sp # <<>>, pk |-> IF sp # <<>> THEN sp[1] ELSE <<>>, valid |-> sv, valid2 |-> sv,
                sm |-> sv /\ Own.scheme = "secp", sm2 |-> sv /\ Own.scheme = "secp",
                nid |-> IF sv THEN K1.nid ELSE <<>>, nid2 |-> IF sv THEN K1.nid ELSE <<>>],
      ed |-> [present |-> ep # <<>>, pk |-> IF ep # <<>> THEN ep[1] ELSE <<>>, valid |-> ev,
              sm |-> ev /\ Own.scheme = "ed", nid |-> IF ev THEN E1.nid ELSE <<>>]]

Sig64 == Repeat(1, 64)

BuildProps ==
  LET B0 == Build(KT, CallSeq, Own, 0, 64)
      B == IF Dev = "BuilderUnchecked" THEN [B0 EXCEPT !.hard = B0.hard \ {"InvalidRlpData", "UnsupportedIdentityScheme"}] ELSE B0
  IN
  /\ B.hard = {} =>     \* the builder may hand the record out (it must, unless a soft cause applies)
       LET D == Decode(KT, Encode(B.seq, B.pairs, Sig64), FactsOfBuilt(B.seq, B.pairs, Sig64)) IN
       /\ D.verdict = "accept" /\ D.seq = B.seq /\ D.pairs = B.pairs /\ D.nid = Own.nid
       /\ B.size <= MaxSize /\ B.size = Len(Encode(B.seq, B.pairs, Sig64))
       /\ IsSortedPairs(B.pairs)
  \* the keys of the result are exactly: what the calls wrote, id, the signer's key
  /\ {B.pairs[i][1] : i \in 1..Len(B.pairs)} = WrittenKeys \cup {K_id, PkKeyOf(Own.scheme)}
  /\ Lookup(B.pairs, K_id) = EncStr(V_v4) /\ Lookup(B.pairs, PkKeyOf(Own.scheme)) = EncStr(Own.pk)
  \* refusing for size only when over the limit minus the builder's slack
  /\ ("ExceedsMaxSize" \in B.hard) = (B.size > MaxSize)
  /\ ("ExceedsMaxSize" \in B.soft) = (B.size > MaxSize - BuilderSlack /\ B.size <= MaxSize)

\* calls on different keys commute
Commute ==
  \A i \in 1..(Len(calls) - 1) :
    LET a == CallSeq[i]  b == CallSeq[i + 1] IN
    (a.m # "seq" /\ b.m # "seq" /\ KeyOfCall(a) # KeyOfCall(b)) =>
       LET sw == [j \in 1..Len(calls) |-> IF j = i THEN b ELSE IF j = i + 1 THEN a ELSE CallSeq[j]] IN
       Build(KT, sw, Own, 0, 64).pairs = Build(KT, CallSeq, Own, 0, 64).pairs

EmitB == Emit => PrintT("B " \o ToJson([calls |-> CallSeq']))
=============================================================================
