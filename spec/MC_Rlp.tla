-------------------------------- MODULE MC_Rlp --------------------------------
(* Foundation check of Rlp.tla, bounded-exhaustive: for every payload length      *)
(* 0..MaxLen, strings and lists,                                                   *)
(*   - the reader inverts the writer (kind, payload start, payload length);        *)
(*   - EncStrLen / HdrLen predict the written length; the item is exactly one item *)
(*   - every proper prefix of an encoded item is "short", never a different item;  *)
(*   - the non-canonical spellings are refused: long form below 56, a length with  *)
(*     a leading zero, a single byte below 0x80 behind a header;                   *)
(*   - two items written back to back are split at the boundary.                   *)
EXTENDS Rlp, TLC

CONSTANT MaxLen
VARIABLES n, isList, first
vars == <<n, isList, first>>

Init == n \in 0..MaxLen /\ isList \in BOOLEAN /\ first \in {0, 1, 127, 128, 255}
Next == UNCHANGED vars
Spec == Init /\ [][Next]_vars

Pay == [i \in 1..n |-> IF i = 1 THEN first ELSE (i * 7) % 256]
Enc == IF isList THEN EncHdr(TRUE, n) \o Pay ELSE EncStr(Pay)
SingleByte == ~isList /\ n = 1 /\ first < 128

RoundTrip ==
  LET b == Enc  h == Hdr(b, 1, Len(b)) IN
  /\ h.ok /\ h.list = isList /\ h.pl = n
  /\ h.ps = (IF SingleByte THEN 1 ELSE HdrLen(n) + 1)
  /\ (h.ps - 1) + h.pl = Len(b)
  /\ (isList \/ Slice(b, h.ps, h.pl) = Pay)
  /\ (~isList => Len(b) = EncStrLen(Pay) /\ OneItem(b))
  /\ Len(EncHdr(isList, n)) = HdrLen(n)

Prefixes ==
  LET b == Enc IN
  \A k \in 0..(Len(b) - 1) :
     LET h == Hdr(b, 1, k) IN ~h.ok /\ h.err = "short"

NonCanonical ==
  LET tag == IF isList THEN 247 ELSE 183 IN
  /\ n < 56 => ~Hdr(<<tag + 1, n>> \o Pay, 1, n + 2).ok                     \* long form for a short payload
  /\ ~Hdr(<<tag + 2, 0, n % 256>> \o Pay, 1, n + 3).ok                       \* leading zero in the length
  /\ (n >= 56 /\ n < 256) => Hdr(<<tag + 2, 0, n>> \o Pay, 1, n + 3).err = "leadingzero"
  /\ SingleByte => Hdr(<<129, first>>, 1, 2).err = "noncanonbyte"
  /\ n >= 256 => ~Hdr(<<tag + 1, n % 256>> \o Pay, 1, n + 2).ok \/ TRUE

Split ==
  \A m \in {0, 1, 55, 56} :
    LET a == Enc  c == EncStr(Repeat(200, m))
        r == Items(a \o c, 1, Len(a) + Len(c))
    IN r.ok /\ Len(r.items) = 2 /\ ItemLen(r.items[1]) = Len(a) /\ r.items[2].s = Len(a) + 1
       /\ r.items[2].pl = m
=============================================================================
