--------------------------------- MODULE Enr ---------------------------------
(* The record state machine: ideal effect of every public constructor and       *)
(* mutator of Enr<K> on the abstract state                                      *)
(*     rec = [seq, pairs, sig, nid]                                             *)
(* (seq: minimal big-endian bytes; pairs: sequence of <<key, raw RLP value>>    *)
(* sorted by key; sig, nid: opaque byte strings), written as the stages the     *)
(* implementation goes through, because C06 / C08 / C09 are about the order and *)
(* effect of exactly these stages:                                              *)
(*   S1 typing of the arguments     S2 candidate pairs (then pk := signer's)    *)
(*   S3 sequence number             S4 identity scheme + signing                *)
(*   S5 size                        S6 commit                                   *)
(* Apply(pre, c) yields the candidate and the set of admissible error kinds of  *)
(* every stage that fails ("when several causes apply, any of them").           *)
EXTENDS EnrTyped

ErrKinds == {"ExceedsMaxSize", "SequenceNumberTooHigh", "SigningError",
             "UnsupportedIdentityScheme", "InvalidRlpData"}

PkKeyOf(scheme) == IF scheme = "secp" THEN K_secp256k1 ELSE K_ed25519

StripBE(b) ==
  LET nz == {i \in 1..Len(b) : b[i] # 0} IN
  IF nz = {} THEN <<>>
  ELSE LET f == CHOOSE i \in nz : \A j \in nz : i <= j IN Slice(b, f, Len(b) - f + 1)

\* canonical RLP of a typed value as accepted by insert<T> / add_value<T>
EncTyped(val) ==
  CASE val.ty \in {"bytes", "str", "ip4", "ip6"} -> EncStr(val.v)
    [] val.ty = "u64"  -> EncStr(StripBE(val.v))
    [] val.ty = "u16"  -> EncStr(NatToBE(val.v))
    [] val.ty = "list" -> EncList([i \in 1..Len(val.v) |-> EncStr(val.v[i])])

(***************************************************************************)
(* S1: typing of a raw value stored under a key                            *)
(***************************************************************************)
TErr(s) == [errs |-> s, open |-> FALSE]
TOk == TErr({})
TOpen(s) == [errs |-> s, open |-> TRUE]

TypedCheck(spkKey, spk, key, raw) ==
  LET h == Hdr(raw, 1, Len(raw))
      one == h.ok /\ (h.ps - 1) + h.pl = Len(raw)
      str == one /\ ~h.list
      pay == Slice(raw, h.ps, h.pl)
  IN
  IF key = K_id THEN
       (IF str /\ pay = V_v4 THEN TOk ELSE TErr({"UnsupportedIdentityScheme", "InvalidRlpData"}))
  ELSE IF ~one THEN TErr({"InvalidRlpData"})
  ELSE IF key \in PortKeys THEN
       (IF str /\ Len(pay) <= 2 /\ (Len(pay) > 0 => pay[1] # 0) THEN TOk ELSE TErr({"InvalidRlpData"}))
  ELSE IF key = K_ip THEN (IF str /\ Len(pay) = 4 THEN TOk ELSE TErr({"InvalidRlpData"}))
  ELSE IF key = K_ip6 THEN (IF str /\ Len(pay) = 16 THEN TOk ELSE TErr({"InvalidRlpData"}))
  ELSE IF key \in {K_secp256k1, K_ed25519} THEN
       (IF ~str THEN TErr({"InvalidRlpData"})
        ELSE IF key = spkKey /\ pay = spk THEN TOk          \* the signer's own key: must succeed (C08)
        ELSE TOpen({"InvalidRlpData"}))                     \* any other public-key value: unspecified
  ELSE TOk

TJoin(a, b) == [errs |-> a.errs \cup b.errs, open |-> a.open \/ b.open]

(***************************************************************************)
(* S1 + S2 per entry point: [typed, pairs, ret, setseq]                    *)
(***************************************************************************)
RECURSIVE RmFold(_, _, _)
RmFold(ps, keys, acc) ==
  IF keys = <<>> THEN [pairs |-> ps, prev |-> acc]
  ELSE RmFold(Del(ps, Head(keys)), Tail(keys), Append(acc, LookupOpt(ps, Head(keys))))

RECURSIVE InsFold(_, _, _, _, _, _)
InsFold(ps, kvs, acc, ty, spkKey, spk) ==
  IF kvs = <<>> THEN [pairs |-> ps, prev |-> acc, typed |-> ty]
  ELSE LET k == Head(kvs)[1]  raw == EncStr(Head(kvs)[2]) IN
       InsFold(Put(ps, k, raw), Tail(kvs), Append(acc, LookupOpt(ps, k)),
               TJoin(ty, TypedCheck(spkKey, spk, k, raw)), spkKey, spk)

Eff(pairs, m, a, spkKey, spk, argpk) ==
  LET ins(k, raw, ret) == [typed |-> TypedCheck(spkKey, spk, k, raw), pairs |-> Put(pairs, k, raw), ret |-> ret]
      del(k) == [typed |-> TOk, pairs |-> Del(pairs, k), ret |-> <<>>]
      del2(k1, k2) == [typed |-> TOk, pairs |-> Del(Del(pairs, k1), k2), ret |-> <<>>]
      port(k) == ins(k, EncStr(NatToBE(a.port)), PortOf(pairs, k))
      sock(pk4, pk6) ==
        IF Len(a.ip) = 4
        THEN [typed |-> TOk, ret |-> <<>>,
              pairs |-> Put(Put(pairs, K_ip, EncStr(a.ip)), pk4, EncStr(NatToBE(a.port)))]
        ELSE [typed |-> TOk, ret |-> <<>>,
              pairs |-> Put(Put(pairs, K_ip6, EncStr(a.ip)), pk6, EncStr(NatToBE(a.port)))]
  IN
  CASE m = "set_seq" -> [typed |-> TOk, pairs |-> pairs, ret |-> <<>>]
    [] m = "insert" -> ins(a.key, EncTyped(a.val), LookupOpt(pairs, a.key))
    [] m = "insert_raw_rlp" -> ins(a.key, a.raw, LookupOpt(pairs, a.key))
    [] m = "set_ip" ->
         IF Len(a.ip) = 4 THEN ins(K_ip, EncStr(a.ip), Ip4Of(pairs))
                          ELSE ins(K_ip6, EncStr(a.ip), Ip6Of(pairs))
    [] m = "set_udp4" -> port(K_udp)
    [] m = "set_udp6" -> port(K_udp6)
    [] m = "set_tcp4" -> port(K_tcp)
    [] m = "set_tcp6" -> port(K_tcp6)
    [] m = "remove_udp4" -> del(K_udp)
    [] m = "remove_udp6" -> del(K_udp6)
    [] m = "remove_tcp" -> del(K_tcp)
    [] m = "remove_tcp6" -> del(K_tcp6)
    [] m = "set_client_info" ->
         LET items == <<EncStr(a.name), EncStr(a.version)>> \o
                      (IF a.build = <<>> THEN <<>> ELSE <<EncStr(a.build[1])>>)
         IN ins(K_client, EncList(items), <<>>)
    [] m = "set_udp_socket" -> sock(K_udp, K_udp6)
    [] m = "set_tcp_socket" -> sock(K_tcp, K_tcp6)
    [] m = "remove_udp_socket" -> del2(K_ip, K_udp)
    [] m = "remove_udp6_socket" -> del2(K_ip6, K_udp6)
    [] m = "remove_tcp_socket" -> del2(K_ip, K_tcp)
    [] m = "remove_tcp6_socket" -> del2(K_ip6, K_tcp6)
    [] m = "remove_key" -> del(a.key)
    [] m = "remove_insert" ->
         LET r == RmFold(pairs, a.remove, <<>>)
             i == InsFold(r.pairs, a.insert, <<>>, TOk, spkKey, spk)
         IN [typed |-> i.typed, pairs |-> i.pairs, ret |-> [removed |-> r.prev, inserted |-> i.prev]]
    [] m = "set_public_key" -> ins(PkKeyOf(argpk.scheme), EncStr(argpk.pk), <<>>)

(***************************************************************************)
(* The full update: S1..S5.  c = [m, args, spk = [scheme, pk, nid],        *)
(* argpk, fault, siglen]                                                   *)
(***************************************************************************)
Apply(pre, c) ==
  LET spkKey == PkKeyOf(c.spk.scheme)
      e == Eff(pre.pairs, c.m, c.args, spkKey, c.spk.pk, c.argpk)
      pairs2 == Put(e.pairs, spkKey, EncStr(c.spk.pk))              \* S2: pk := signer's, written last
      overflow == c.m # "set_seq" /\ IsMaxU64(pre.seq)               \* S3
      seq2 == IF c.m = "set_seq" THEN StripBE(c.args.seq)
              ELSE IF overflow THEN pre.seq ELSE IncBE(pre.seq)
      idErr == StrEntry(pairs2, K_id) # <<V_v4>>                     \* S4
      size == EncLenOf(seq2, pairs2, c.siglen)                       \* S5
      hard == (IF overflow THEN {"SequenceNumberTooHigh"} ELSE {})
              \cup (IF idErr THEN {"UnsupportedIdentityScheme"} ELSE {})
              \cup (IF c.fault = 1 THEN {"SigningError"} ELSE {})
              \cup (IF size > MaxSize THEN {"ExceedsMaxSize"} ELSE {})
              \cup (IF e.typed.open THEN {} ELSE e.typed.errs)
  IN [seq |-> seq2, pairs |-> pairs2, ret |-> e.ret, size |-> size,
      hard |-> hard,                                   \* non-empty: the call must fail with one of these ...
      \* ... or (unspecified region) may fail with one of these. With a key type that knows several schemes a
      \* secp256k1 entry in the candidate may shadow an ed25519 signer's key: the library may refuse to sign.
      soft |-> (IF e.typed.open THEN e.typed.errs ELSE {})
               \cup (IF KBase(c.kt) = "comb" /\ c.spk.scheme = "ed" /\ HasKey(pairs2, K_secp256k1)
                     THEN {"SigningError"} ELSE {}),
      \* the candidate carries a secp256k1 entry while the signer is an ed25519 key of a multi-scheme key type:
      \* it would be verified against the secp256k1 entry (C11), so signing it cannot yield a valid record
      shadow |-> KBase(c.kt) = "comb" /\ c.spk.scheme = "ed" /\ HasKey(pairs2, K_secp256k1),
      overflow |-> overflow, idErr |-> idErr, sizeErr |-> size > MaxSize,
      typedErr |-> ~e.typed.open /\ e.typed.errs # {}]

(***************************************************************************)
(* Builder                                                                 *)
(***************************************************************************)
RECURSIVE BuildFold(_, _, _)
BuildFold(calls, seq, pairs) ==
  IF calls = <<>> THEN [seq |-> seq, pairs |-> pairs]
  ELSE LET c == Head(calls)  m == c.m
           put(k, raw) == BuildFold(Tail(calls), seq, Put(pairs, k, raw))
       IN
       CASE m = "seq" -> BuildFold(Tail(calls), StripBE(c.seq), pairs)
         [] m = "add_value_rlp" -> put(c.key, c.raw)
         [] m = "add_value" -> put(c.key, EncTyped(c.val))
         [] m \in {"ip", "ip4", "ip6"} -> put(IF Len(c.ip) = 4 THEN K_ip ELSE K_ip6, EncStr(c.ip))
         [] m = "tcp4" -> put(K_tcp, EncStr(NatToBE(c.port)))
         [] m = "tcp6" -> put(K_tcp6, EncStr(NatToBE(c.port)))
         [] m = "udp4" -> put(K_udp, EncStr(NatToBE(c.port)))
         [] m = "udp6" -> put(K_udp6, EncStr(NatToBE(c.port)))
         [] m = "client_info" ->
              put(K_client, EncList(<<EncStr(c.name), EncStr(c.version)>> \o
                                    (IF c.build = <<>> THEN <<>> ELSE <<EncStr(c.build[1])>>)))

\* size rule of C09 for the builder: refuse above 300, may refuse within 8 bytes of the limit, nothing smaller
BuilderSlack == 8

Build(kt, calls, spk, fault, siglen) ==
  LET spkKey == PkKeyOf(spk.scheme)
      f == BuildFold(calls, <<1>>, <<>>)
      \* user entries under id / the signer's public-key key are overwritten; their typing is unspecified
      tys == [i \in 1..Len(f.pairs) |->
                LET k == f.pairs[i][1]  t == TypedCheck(spkKey, spk.pk, k, f.pairs[i][2]) IN
                IF k \in {K_id, spkKey} /\ t.errs # {} THEN TOpen(t.errs \cup {"InvalidRlpData"}) ELSE t]
      typed == [errs |-> UNION {tys[i].errs : i \in 1..Len(tys)}, open |-> \E i \in 1..Len(tys) : tys[i].open]
      hardTyped == UNION {tys[i].errs : i \in {j \in 1..Len(tys) : ~tys[j].open}}
      pairs2 == Put(Put(f.pairs, K_id, EncStr(V_v4)), spkKey, EncStr(spk.pk))
      size == EncLenOf(f.seq, pairs2, siglen)
      hard == hardTyped
              \cup (IF fault = 1 THEN {"SigningError"} ELSE {})
              \cup (IF size > MaxSize THEN {"ExceedsMaxSize"} ELSE {})
      soft == (UNION {tys[i].errs : i \in {j \in 1..Len(tys) : tys[j].open}})
              \cup (IF KBase(kt) = "comb" /\ spk.scheme = "ed" /\ HasKey(pairs2, K_secp256k1)
                    THEN {"SigningError"} ELSE {})
              \cup (IF size > MaxSize - BuilderSlack /\ size <= MaxSize THEN {"ExceedsMaxSize"} ELSE {})
  IN [seq |-> f.seq, pairs |-> pairs2, size |-> size, hard |-> hard, soft |-> soft]

=============================================================================
