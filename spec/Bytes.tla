------------------------------- MODULE Bytes -------------------------------
(* Byte sequences: BytesCore (non-recursive definitions, shared with the TLAPS *)
(* proof modules) plus the recursive operators.                               *)
EXTENDS BytesCore

RECURSIVE Flatten(_)
Flatten(ss) == IF ss = <<>> THEN <<>> ELSE Head(ss) \o Flatten(Tail(ss))

\* s + 1 for s # U64Max (carry propagation on bytes)
RECURSIVE IncBE(_)
IncBE(s) ==
  IF s = <<>> THEN <<1>>
  ELSE LET n == Len(s) IN
       IF s[n] < 255 THEN [s EXCEPT ![n] = s[n] + 1]
       ELSE IncBE(SubSeq(s, 1, n - 1)) \o <<0>>

=============================================================================
