-------------------------------- MODULE MC_Typed ------------------------------
(* C14, bounded-exhaustive on the specification side:                              *)
(*  - every port 0..65535: the canonical encoding reads back as the value, on     *)
(*    every port key, and the encoding has no leading zero;                        *)
(*  - every combination of presence / absence of the six address and port keys    *)
(*    with well-typed and ill-typed raw values: an accessor reports a value       *)
(*    exactly when the raw value is the canonical encoding of such a value, and   *)
(*    sockets / reachability are the combination of the same family's accessors.  *)
EXTENDS EnrTyped, TLC

VARIABLES mode, port, choice
vars == <<mode, port, choice>>

Six == <<K_ip, K_ip6, K_tcp, K_tcp6, K_udp, K_udp6>>

\* per key: 1 = absent, 2 = well-typed, 3.. = ill-typed / non-canonical raw values
IpVals  == <<EncStr(<<10,0,0,1>>), EncStr(<<10,0,1>>), EncStr(Repeat(1, 16)), EncList(<<EncStr(<<10,0,0,1>>)>>)>>
Ip6Vals == <<EncStr(Repeat(1, 15) \o <<2>>), EncStr(<<10,0,0,1>>), EncStr(Repeat(1, 17))>>
PortVals == <<EncStr(<<118,95>>), <<130,0,80>>, EncStr(<<1,0,0>>), <<0>>, EncList(<<EncStr(<<80>>)>>), EncStr(<<>>)>>
ValsOf(i) == IF i = 1 THEN IpVals ELSE IF i = 2 THEN Ip6Vals ELSE PortVals
WellTyped(i, c) == c = 2 \/ (i > 2 /\ c = 7)       \* index 7 of the port values is the canonical zero

Pairs == LET add(ps, i) == IF choice[i] = 1 THEN ps ELSE Put(ps, Six[i], ValsOf(i)[choice[i] - 1])
         IN add(add(add(add(add(add(<<>>, 1), 2), 3), 4), 5), 6)

Init == \/ mode = "port" /\ port \in 0..65535 /\ choice = <<1,1,1,1,1,1>>
        \/ /\ mode = "combo" /\ port = 0
           /\ choice \in [1..6 -> 1..7]
           /\ \A i \in 1..6 : choice[i] <= Len(ValsOf(i)) + 1
           \* at most two keys carry an ill-typed value (keeps the product small; presence is exhaustive)
           /\ Cardinality({i \in 1..6 : choice[i] > 2}) <= 2

Next == UNCHANGED vars
Spec == Init /\ [][Next]_vars

PortProps == mode = "port" =>
  LET raw == EncStr(NatToBE(port)) IN
  /\ \A k \in PortKeys : PortOf(Put(<<>>, k, raw), k) = <<port>>
  /\ OneItem(raw) /\ Len(raw) <= 3
  /\ BEToNat(NatToBE(port)) = port /\ (port > 0 => NatToBE(port)[1] # 0)

ComboProps == mode = "combo" =>
  LET ps == Pairs
      acc == <<Ip4Of(ps), Ip6Of(ps), Tcp4Of(ps), Tcp6Of(ps), Udp4Of(ps), Udp6Of(ps)>>
  IN /\ \A i \in 1..6 : (acc[i] # <<>>) <=> (choice[i] > 1 /\ WellTyped(i, choice[i]))
     /\ Udp4Sock(ps) # <<>> <=> (acc[1] # <<>> /\ acc[5] # <<>>)
     /\ Tcp4Sock(ps) # <<>> <=> (acc[1] # <<>> /\ acc[3] # <<>>)
     /\ Udp6Sock(ps) # <<>> <=> (acc[2] # <<>> /\ acc[6] # <<>>)
     /\ Tcp6Sock(ps) # <<>> <=> (acc[2] # <<>> /\ acc[4] # <<>>)
     /\ UdpReach(ps) <=> ((acc[1] # <<>> /\ acc[5] # <<>>) \/ (acc[2] # <<>> /\ acc[6] # <<>>))
     /\ TcpReach(ps) <=> ((acc[1] # <<>> /\ acc[3] # <<>>) \/ (acc[2] # <<>> /\ acc[4] # <<>>))
     /\ Udp4Sock(ps) # <<>> => Udp4Sock(ps)[1] = [ip |-> acc[1][1], port |-> acc[5][1]]
     /\ Tcp6Sock(ps) # <<>> => Tcp6Sock(ps)[1] = [ip |-> acc[2][1], port |-> acc[4][1]]
=============================================================================
