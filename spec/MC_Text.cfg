SPECIFICATION Spec
CONSTANTS
  MaxBytes = 5
  MaxChars = 5
INVARIANTS RoundTrip Injective
CHECK_DEADLOCK FALSE
