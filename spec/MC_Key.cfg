SPECIFICATION Spec
CONSTANTS
  Emit = FALSE
INVARIANTS Props EmitCase
CHECK_DEADLOCK FALSE
