------------------------------ MODULE MC_NodeId ------------------------------
(* C16, bounded-exhaustive: every slice length 0..MaxSlice for parse, and every    *)
(* deserialisation input built as  prefix ++ hex digits (lower / upper / mixed)    *)
(* of every length 0..MaxHex with at most one non-hex character at a position      *)
(* class.  Checked on every case: validity BY CONSTRUCTION <=> acceptance by the   *)
(* parser-shaped rule NodeId!FromStr, and the round trips of the rendered forms.   *)
EXTENDS NodeId, TLC, Json

CONSTANTS MaxSlice, MaxHex, Emit

VARIABLES kind, len, pre, cas, badpos, badch
vars == <<kind, len, pre, cas, badpos, badch>>

Prefixes == <<<<>>, C_0x, <<48, 88>>, C_0x \o C_0x, <<120, 48>>>>     \* "", 0x, 0X, 0x0x, x0
BadChars == <<103, 71, 32, 43, 45, 95, 122, 47, 10>>                  \* g G space + - _ z / \n

\* a deterministic digit pattern: position -> hex digit value
Dig(i) == (7 * i + 3) % 16
Ch(i) == LET v == Dig(i)
             lower == HexDigit(v)
             upper == IF v < 10 THEN 48 + v ELSE 55 + v
         IN IF cas = "lower" THEN lower ELSE IF cas = "upper" THEN upper ELSE (IF i % 2 = 0 THEN upper ELSE lower)

Digits == [i \in 1..len |-> IF badpos = i THEN BadChars[badch] ELSE Ch(i)]
Str == Prefixes[pre] \o Digits

\* validity by construction: at most one leading 0x, exactly 64 digits, no foreign character
ValidStr == pre \in {1, 2} /\ len = 64 /\ badpos = 0
ExpectedBytes == [p \in 1..32 |-> Dig(2 * p - 1) * 16 + Dig(2 * p)]

PosClasses == {1, 2, 32, 33, 63, 64, len}

Init ==
  \/ /\ kind = "parse" /\ len \in 0..MaxSlice /\ pre = 1 /\ cas = "lower" /\ badpos = 0 /\ badch = 1
  \/ /\ kind = "json" /\ len \in 0..MaxHex /\ pre \in 1..Len(Prefixes) /\ cas \in {"lower", "upper", "mixed"}
     /\ \/ badpos = 0 /\ badch = 1
        \/ badpos \in (PosClasses \cap 1..len) /\ badch \in 1..Len(BadChars)

Next == UNCHANGED vars
Spec == Init /\ [][Next]_vars

Props ==
  /\ kind = "parse" => (ParseOk([i \in 1..len |-> i % 256]) <=> len = 32)
  /\ kind = "json" =>
       LET P == FromStr(Str) IN
       /\ P.ok = ValidStr
       /\ P.ok => P.bytes = ExpectedBytes
       \* the rendered forms of the parsed id parse back to it, and have their documented shape
       /\ P.ok => /\ FromStr(SubSeq(JsonOf(P.bytes), 2, 67)).bytes = P.bytes
                  /\ Len(JsonOf(P.bytes)) = 68 /\ Len(DebugOf(P.bytes)) = 66 /\ Len(DisplayOf(P.bytes)) = 12
                  /\ FromStr(HexEnc(P.bytes)).bytes = P.bytes

CaseJson ==
  IF kind = "parse" THEN [kind |-> "parse", len |-> len, text |-> <<>>]
  ELSE [kind |-> "json", len |-> len, text |-> <<34>> \o Str \o <<34>>]

EmitCase == Emit => PrintT("CASE " \o ToJson(CaseJson))
=============================================================================
