SPECIFICATION Spec
CONSTANTS
  MaxSlice = 64
  MaxHex = 70
  Emit = FALSE
INVARIANTS Props EmitCase
CHECK_DEADLOCK FALSE
