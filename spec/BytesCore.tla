------------------------------- MODULE BytesCore -------------------------------
(* Byte sequences: ordering, ASCII constants of the reserved ENR keys, 64-bit   *)
(* (non-recursive part: TLAPS cannot load RECURSIVE definitions, see *Proofs.tla)  *)
(* unsigned integers as minimal big-endian byte sequences (TLC integers are     *)
(* 32-bit, so a sequence number is never a TLA+ integer), secp256k1 constants.  *)
EXTENDS Naturals, Sequences, FiniteSets

Byte == 0..255

Min2(a, b) == IF a <= b THEN a ELSE b
Max2(a, b) == IF a >= b THEN a ELSE b

\* sub-sequence of b starting at index s (1-based) of length n
Slice(b, s, n) == [i \in 1..n |-> b[s + i - 1]]

\* first index at which a and b differ (within the common length), or 0
FirstDiff(a, b) ==
  LET n == Min2(Len(a), Len(b))
      d == {i \in 1..n : a[i] # b[i]}
  IN IF d = {} THEN 0 ELSE CHOOSE i \in d : \A j \in d : i <= j

\* strict lexicographic order on byte sequences (the order of the record's key map)
LexLt(a, b) ==
  LET i == FirstDiff(a, b)
  IN IF i = 0 THEN Len(a) < Len(b) ELSE a[i] < b[i]

LexLe(a, b) == a = b \/ LexLt(a, b)

IsPrefixOf(p, b) == Len(p) <= Len(b) /\ \A i \in 1..Len(p) : b[i] = p[i]


Repeat(x, n) == [i \in 1..n |-> x]

(***************************************************************************)
(* ASCII constants                                                         *)
(***************************************************************************)
K_id        == <<105,100>>
V_v4        == <<118,52>>
K_ip        == <<105,112>>
K_ip6       == <<105,112,54>>
K_tcp       == <<116,99,112>>
K_tcp6      == <<116,99,112,54>>
K_udp       == <<117,100,112>>
K_udp6      == <<117,100,112,54>>
K_secp256k1 == <<115,101,99,112,50,53,54,107,49>>
K_ed25519   == <<101,100,50,53,53,49,57>>
K_client    == <<99,108,105,101,110,116>>
C_enr       == <<101,110,114,58>>     \* "enr:"
C_0x        == <<48,120>>             \* "0x"

PortKeys == {K_tcp, K_tcp6, K_udp, K_udp6}

(***************************************************************************)
(* u64 as a minimal big-endian byte sequence (<<>> is zero)                *)
(***************************************************************************)
IsU64(s) == Len(s) <= 8 /\ (Len(s) > 0 => s[1] # 0)

U64Max == <<255,255,255,255,255,255,255,255>>
IsMaxU64(s) == s = U64Max

\* numeric comparison of two minimal big-endian numbers
U64Lt(a, b) == IF Len(a) # Len(b) THEN Len(a) < Len(b) ELSE LexLt(a, b)

\* small numbers <-> minimal big-endian bytes (ports, lengths: < 2^24, fits TLC integers)
NatToBE(n) ==
  IF n = 0 THEN <<>>
  ELSE IF n < 256 THEN <<n>>
  ELSE IF n < 65536 THEN <<n \div 256, n % 256>>
  ELSE <<n \div 65536, (n \div 256) % 256, n % 256>>

BEToNat(s) ==   \* Len(s) <= 3
  IF Len(s) = 0 THEN 0
  ELSE IF Len(s) = 1 THEN s[1]
  ELSE IF Len(s) = 2 THEN s[1] * 256 + s[2]
  ELSE s[1] * 65536 + s[2] * 256 + s[3]

(***************************************************************************)
(* secp256k1 constants (big-endian, 32 bytes)                              *)
(***************************************************************************)
SecpN == <<255,255,255,255,255,255,255,255,255,255,255,255,255,255,255,254,
           186,174,220,230,175,72,160,59,191,210,94,140,208,54,65,65>>
SecpHalfN == <<127,255,255,255,255,255,255,255,255,255,255,255,255,255,255,255,
               93,87,110,115,87,164,80,29,223,233,47,70,104,27,32,160>>
Zero32 == Repeat(0, 32)

\* the S half of a 64-byte r||s signature is at most floor(n/2)
LowS(sig) == Len(sig) = 64 /\ LexLe(Slice(sig, 33, 32), SecpHalfN)

\* a 32-byte big-endian string is a valid secp256k1 secret scalar: 0 < k < n
ValidScalar(k) == Len(k) = 32 /\ k # Zero32 /\ LexLt(k, SecpN)

=============================================================================
