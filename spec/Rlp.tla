-------------------------------- MODULE Rlp --------------------------------
(* Canonical RLP framing over byte sequences: the header level (RlpHdr) plus   *)
(* the recursive walks over item sequences.                                    *)
EXTENDS Bytes, RlpHdr

\* all items of b[i..lim], or failure if some header is ill-formed / overruns lim
RECURSIVE ItemsR(_, _, _, _)
ItemsR(b, i, lim, acc) ==
  IF i > lim THEN [ok |-> TRUE, items |-> acc]
  ELSE LET h == Hdr(b, i, lim) IN
       IF ~h.ok THEN [ok |-> FALSE, items |-> acc]
       ELSE ItemsR(b, h.ps + h.pl, lim,
                   Append(acc, [list |-> h.list, s |-> i, ps |-> h.ps, pl |-> h.pl]))

Items(b, i, lim) == ItemsR(b, i, lim, <<>>)

\* recursive well-formedness of a list payload (every nested item canonically framed)
RECURSIVE DeepOk(_, _, _)
DeepOk(b, i, lim) ==
  IF i > lim THEN TRUE
  ELSE LET h == Hdr(b, i, lim) IN
       /\ h.ok
       /\ (h.list => DeepOk(b, h.ps, h.ps + h.pl - 1))
       /\ DeepOk(b, h.ps + h.pl, lim)

\* list of already encoded items
EncList(encItems) == LET p == Flatten(encItems) IN EncHdr(TRUE, Len(p)) \o p

=============================================================================
