-------------------------------- MODULE Trace --------------------------------
(* Trace validation: every event recorded from the real library is replayed      *)
(* through the specification (EnrCodec!Decode, Enr!Apply / Build, EnrTyped,      *)
(* Base64Url, NodeId, CombinedKey rules). For every event the set of failed      *)
(* checks is computed, each tagged with the property it belongs to; the state    *)
(* then follows the implementation (resynchronisation), so one mismatch does not *)
(* hide the rest of the trace. One successor per state: validation is linear.    *)
EXTENDS Enr, Base64Url, NodeId, EnrDebug, Json, IOUtils, TLC

Rec == ndJsonDeserialize(IOEnv.TRACE)

VARIABLES l,      \* index of the next event
          recs,   \* handle -> last observed core state of that record
          nbad    \* number of events with at least one failed check

vars == <<l, recs, nbad>>

\* the handle table in effect for the current event: handles are local to a script
RS == IF l > 1 /\ l <= Len(Rec) /\ Rec[l - 1].sid # Rec[l].sid THEN <<>> ELSE recs

Chk(p, name, ok) == [p |-> p, c |-> name, ok |-> ok]
Fails(cs) == SelectSeq(cs, LAMBDA x : ~x.ok)
\* conditional check list
When(cond, cs) == IF cond THEN cs ELSE <<>>

BuiltinSigLen == 64

\* key types whose decoding rule is identical are evaluated once
KClass(kt) == IF KBase(kt) \in {"k256", "libsecp"} THEN "k256" ELSE KBase(kt)

(***************************************************************************)
(* Checks on any record value the library handed out                       *)
(***************************************************************************)
RecChecks(kt, c, F) ==
  LET encOk == c.enc = Encode(c.seq, c.pairs, c.sig)
      factsOk == F.ok /\ F.msg = Content(c.seq, c.pairs) /\ F.sig = c.sig
      D == Decode(kt, c.enc, F)
  IN <<Chk("C03", "rec_accessor_panics", c.panics = <<>>),
       Chk("C09", "size_exact", c.size = Len(c.enc)),
       Chk("C09", "size_le_300", Len(c.enc) <= MaxSize),
       Chk("C04", "enc_is_encoding_of_fields", encOk),
       Chk("C08", "pairs_sorted", IsSortedPairs(c.pairs)),
       \* C04: every record the library returns encodes to bytes that its own decoder takes back as an equal record
       Chk("C04", "returned_record_decodes_back_to_an_equal_record", c.again # <<FALSE>>),
       \* C05: ... "and is accepted again by the decoder" -- the implementation's own, whatever the specification thinks of
       \* the bytes (also where it leaves them open, e.g. the inside of list values under custom keys)
       Chk("C05", "accepted_again_by_the_decoder", c.again # <<FALSE>>),
       \* whatever produced the record: its node id is the id of the key its own public-key accessor returns
       Chk("C10", "nid_from_public_key", c.nid_pk # <<>> => c.nid_pk = <<c.nid>>),
       Chk("TOOL", "rec_facts_match", factsOk)>>
     \o When(encOk /\ factsOk,
       <<Chk("TOOL", "dec_facts_match", ~D.fm),
         Chk("C05", "redecodable_by_spec", D.verdict \in {"accept", "open"}),
         Chk("C05", "verify_true", c.verify = <<TRUE>>)>>
       \o When(D.verdict = "accept",
         <<Chk("C10", "nid_is_hash_of_pk", c.nid = D.nid),
           Chk("C10", "nid_from_public_key_accessor_works", c.nid_pk # <<>>),
           Chk("C05", "public_key_accessor", c.pk = <<D.pk>>)>>))

(***************************************************************************)
(* Extended observation of a record: text forms, typed accessors, getters, *)
(* iteration, conversions, clone, re-decodings                             *)
(***************************************************************************)
SockObs(s) == IF s = <<>> THEN <<>> ELSE <<[ip |-> s[1].ip, port |-> s[1].port]>>
Sock6Plain(s) == s = <<>> \/ (s[1].flow = 0 /\ s[1].scope = 0)

GetterChecks(c, x) ==
  LET n == Len(c.pairs)
      one(j) ==
        LET v == c.pairs[j][2]  g == x.getters[j]
            h == Hdr(v, 1, Len(v))
            single == h.ok /\ (h.ps - 1) + h.pl = Len(v)
            str == single /\ ~h.list
            pay == Slice(v, h.ps, h.pl)
        IN /\ g.raw = <<v>>
           /\ (single => ~g.get_panic /\ g.get = <<pay>>)
           /\ (single => g.gd_bytes = (IF str THEN <<pay>> ELSE <<>>))
           /\ (single => g.gd_u64 = (IF str /\ Len(pay) <= 8 /\ (Len(pay) > 0 => pay[1] # 0) THEN <<pay>> ELSE <<>>))
           /\ (single /\ (h.list => DeepOk(v, h.ps, h.ps + h.pl - 1)) => g.gd_list = StrListOf(v))
  IN Len(x.getters) = n /\ \A j \in 1..n : one(j)

RedecChecks(c, x, tab) ==
  LET r(o, name) == <<Chk("C04", "redecode_" \o name \o "_ok", o.kind = "ok"),
                      Chk("C04", "redecode_" \o name \o "_fields", o.kind = "ok" => tab[o.core] = c),
                      Chk("C10", "node_id_survives_encode_decode:" \o name, o.kind = "ok" => tab[o.core].nid = c.nid),
                      Chk("C15", "decode_after_encode_image_exists:" \o name, o.kind = "ok"),
                      Chk("C15", "redecode_" \o name \o "_equal", o.kind = "ok" => o.eq /\ o.hash_eq),
                      Chk("C15", "equal_redecoded_record_has_identical_pairs:" \o name,
                          (o.kind = "ok" /\ o.eq) => (tab[o.core].pairs = c.pairs /\ tab[o.core].enc = c.enc))>>
  IN r(x.redec.bytes, "bytes") \o r(x.redec.text, "text") \o r(x.redec.json, "json")
     \o r(x.redec.json_value, "json_value") \o r(x.redec.json_reader, "json_reader")
     \o <<Chk("C12", "json_form_parses_back_to_an_equal_record",
              \A o \in {x.redec.json, x.redec.json_value, x.redec.json_reader} : o.kind = "ok" /\ o.eq /\ tab[o.core] = c),
          Chk("C12", "text_form_parses_back_to_an_equal_record", x.redec.text.kind = "ok" /\ x.redec.text.eq /\ tab[x.redec.text.core] = c),
          Chk("C07", "seq_survives_encode_decode",
              \A o \in {x.redec.bytes, x.redec.text, x.redec.json} : o.kind = "ok" /\ tab[o.core].seq = c.seq),
          Chk("C12", "text_without_prefix_parses", x.redec.text_noprefix.kind = "ok"
                       /\ tab[x.redec.text_noprefix.core] = c /\ x.redec.text_noprefix.eq),
          Chk("C13", "redecode_consumes_all", x.redec.bytes.kind = "ok" => x.redec.bytes.rest = 0)>>

TypedChecks(c, x) ==
  LET ps == c.pairs
      idv == IdOf(ps)
      cl == ClientOf(ps)
      clAscii == cl = <<>> \/ (IsAscii(cl[1].n) /\ IsAscii(cl[1].v) /\ (cl[1].b # <<>> => IsAscii(cl[1].b[1])))
  IN <<Chk("C03", "ext_accessor_panics", x.panics = <<>>),
       Chk("C14", "ip4", x.ip4 = Ip4Of(ps)),
       Chk("C14", "ip6", x.ip6 = Ip6Of(ps)),
       Chk("C14", "tcp4", x.tcp4 = Tcp4Of(ps)),
       Chk("C14", "tcp6", x.tcp6 = Tcp6Of(ps)),
       Chk("C14", "udp4", x.udp4 = Udp4Of(ps)),
       Chk("C14", "udp6", x.udp6 = Udp6Of(ps)),
       Chk("C14", "udp4_socket", x.udp4_socket = Udp4Sock(ps)),
       Chk("C14", "tcp4_socket", x.tcp4_socket = Tcp4Sock(ps)),
       Chk("C14", "udp6_socket", SockObs(x.udp6_socket) = Udp6Sock(ps) /\ Sock6Plain(x.udp6_socket)),
       Chk("C14", "tcp6_socket", SockObs(x.tcp6_socket) = Tcp6Sock(ps) /\ Sock6Plain(x.tcp6_socket)),
       Chk("C14", "udp_reachable", x.udp_reach = UdpReach(ps)),
       Chk("C14", "tcp_reachable", x.tcp_reach = TcpReach(ps)),
       Chk("C14", "id", (idv = <<>> \/ IsAscii(idv[1])) => x.id = idv),
       Chk("C14", "id_presence", (x.id = <<>>) = (idv = <<>>)),
       Chk("C14", "client_info", clAscii => x.client = cl),
       Chk("C14", "client_info_presence", (x.client = <<>>) = (cl = <<>>))>>

\* C11: the record's own encoding, decoded under each built-in key type, gives the same record wherever the
\* specification (with the record's oracle facts F) says that key type accepts it
CrossKtChecks(c, x, tab, F) ==
  LET P == Parse(c.enc)
      fit == FactsFit(P, F)
      one(kt, o) ==
        LET D == Judge(kt, P, F, fit) IN
        <<Chk("C11", "own_encoding_accepted_by:" \o kt, (fit /\ D.verdict = "accept") => o.kind = "ok"),
          Chk("C11", "own_encoding_refused_by:" \o kt, (fit /\ D.verdict = "reject") => o.kind # "ok"),
          Chk("C11", "same_record_under:" \o kt,
              (fit /\ D.verdict = "accept" /\ o.kind = "ok") =>
                 LET d == tab[o.core] IN
                 d.seq = c.seq /\ d.pairs = c.pairs /\ d.sig = c.sig /\ d.nid = c.nid /\ d.pk = c.pk /\ d.enc = c.enc)>>
  IN one("k256", x.redec_kts.k256) \o one("libsecp", x.redec_kts.libsecp) \o one("ed", x.redec_kts.ed) \o one("comb", x.redec_kts.comb)

ExtChecks(c, x, tab) ==
  IF x.level = "typed" THEN TypedChecks(c, x)
  ELSE
  LET ps == c.pairs IN
  TypedChecks(c, x)
  \o <<Chk("C12", "text_form", x.text = TextOf(c.enc)),
       Chk("C12", "display_is_text", x.display = x.text),
       Chk("C12", "json_is_quoted_text", x.json = <<34>> \o x.text \o <<34>>),
       Chk("X01", "debug_rendering", DebugSpecified(c) => x.debug = DebugOfRec(c)),
       Chk("C14", "getters", GetterChecks(c, x)),
       Chk("C14", "absent_key_none", x.absent_none),
       Chk("C08", "into_iter_is_pairs", x.into_iter = ps),
       Chk("C10", "nodeid_from_record", x.nid_from_ref = c.nid /\ x.nid_from_val = c.nid),
       Chk("C15", "clone_equal", x.clone.core > 0 /\ x.clone.eq /\ x.clone.hash_eq /\ x.clone.cc),
       Chk("C15", "clone_fields", x.clone.core > 0 /\ tab[x.clone.core] = c)>>
     \o RedecChecks(c, x, tab)

MaybeExt(e, c) ==
  IF e.ext = <<>> THEN <<>>
  ELSE ExtChecks(c, e.ext[1], e.tab)
       \o (IF e.ext[1].level = "full" /\ e.t \in {"call", "build", "clone"} /\ e.facts.ok
           THEN CrossKtChecks(c, e.ext[1], e.tab, e.facts) ELSE <<>>)

\* C14: what a typed setter stored reads back, through the typed accessors, as the value that was set
ReadBack(e) ==
  IF e.ext = <<>> \/ e.out.kind # "ok" THEN <<>>
  ELSE LET x == e.ext[1]  a == e.args  m == e.m
           s4(sock) == sock = <<[ip |-> a.ip, port |-> a.port]>>
           s6(sock) == SockObs(sock) = <<[ip |-> a.ip, port |-> a.port]>>
       IN
       CASE m = "set_tcp4" -> <<Chk("C14", "setter_reads_back:tcp4", x.tcp4 = <<a.port>>)>>
         [] m = "set_tcp6" -> <<Chk("C14", "setter_reads_back:tcp6", x.tcp6 = <<a.port>>)>>
         [] m = "set_udp4" -> <<Chk("C14", "setter_reads_back:udp4", x.udp4 = <<a.port>>)>>
         [] m = "set_udp6" -> <<Chk("C14", "setter_reads_back:udp6", x.udp6 = <<a.port>>)>>
         [] m = "set_ip" -> <<Chk("C14", "setter_reads_back:ip", IF Len(a.ip) = 4 THEN x.ip4 = <<a.ip>> ELSE x.ip6 = <<a.ip>>)>>
         [] m = "set_udp_socket" ->
              <<Chk("C14", "setter_reads_back:udp_socket", IF Len(a.ip) = 4 THEN s4(x.udp4_socket) ELSE s6(x.udp6_socket))>>
         [] m = "set_tcp_socket" ->
              <<Chk("C14", "setter_reads_back:tcp_socket", IF Len(a.ip) = 4 THEN s4(x.tcp4_socket) ELSE s6(x.tcp6_socket))>>
         [] m = "set_client_info" ->
              <<Chk("C14", "setter_reads_back:client_info",
                    (IsAscii(a.name) /\ IsAscii(a.version) /\ (a.build # <<>> => IsAscii(a.build[1])))
                      => x.client = <<[n |-> a.name, v |-> a.version, b |-> a.build]>>)>>
         [] OTHER -> <<>>

\* the same for the builder: the last call per field wins
RECURSIVE BuilderReadBack(_, _, _)
BuilderReadBack(calls, x, acc) ==
  IF calls = <<>> THEN acc
  ELSE LET c == Head(calls)
           later(ms) == \E j \in 2..Len(calls) : calls[j].m \in ms \/ calls[j].m \in {"add_value", "add_value_rlp"}
           chk == CASE c.m = "tcp4" /\ ~later({"tcp4"}) -> <<Chk("C14", "builder_reads_back:tcp4", x.tcp4 = <<c.port>>)>>
                    [] c.m = "tcp6" /\ ~later({"tcp6"}) -> <<Chk("C14", "builder_reads_back:tcp6", x.tcp6 = <<c.port>>)>>
                    [] c.m = "udp4" /\ ~later({"udp4"}) -> <<Chk("C14", "builder_reads_back:udp4", x.udp4 = <<c.port>>)>>
                    [] c.m = "udp6" /\ ~later({"udp6"}) -> <<Chk("C14", "builder_reads_back:udp6", x.udp6 = <<c.port>>)>>
                    [] c.m \in {"ip", "ip4", "ip6"} /\ ~later({"ip", "ip4", "ip6"}) ->
                         <<Chk("C14", "builder_reads_back:ip", IF Len(c.ip) = 4 THEN x.ip4 = <<c.ip>> ELSE x.ip6 = <<c.ip>>)>>
                    [] OTHER -> <<>>
       IN BuilderReadBack(Tail(calls), x, acc \o chk)

(***************************************************************************)
(* decode events                                                           *)
(***************************************************************************)
\* checks on one outcome o (under key type kt) of decoding the buffer b whose first item the
\* specification judges as D; `local` = o is the outcome for the item alone (or there is no suffix)
\* the signature the input carries is authentic for key type kt, as far as the independent oracle can tell from
\* the bytes as they are (whatever else is wrong with them)
Authentic(kt, F) ==
  LET secpOk == F.secp.present /\ F.secp.valid /\ F.secp.sm /\ Len(F.sig) = 64 /\ LowS(F.sig)
      edOk == F.ed.present /\ F.ed.valid /\ F.ed.sm /\ Len(F.sig) = 64
  IN CASE KBase(kt) \in {"k256", "libsecp"} -> secpOk
       [] KBase(kt) = "ed" -> edOk
       [] KBase(kt) = "comb" -> IF F.secp.present /\ F.secp.valid THEN secpOk ELSE edOk
       [] OTHER -> TRUE

OutcomeChecks(kt, b, o, D, tab, pAcc, pRej, F) ==
  <<Chk("TOOL", "dec_facts_match", ~D.fm),
    Chk("C03", "decode_panics", o.kind # "panic"),
    \* C01 whatever the structure: nothing is accepted whose signature does not verify for the bytes as they are
    Chk("C01", "unauthentic_input_accepted:" \o KBase(kt), (o.kind = "ok" /\ F.ok /\ Len(F.secp.pk) \in {0, 33}) => Authentic(kt, F))>>
  \o When(~D.fm,
    <<Chk(pAcc, "valid_record_rejected:" \o KBase(kt), D.verdict = "accept" => o.kind # "err"),
      Chk(pRej, "invalid_record_accepted:" \o D.why \o ":" \o KBase(kt), D.verdict = "reject" => o.kind # "ok"),
      \* "every other input is rejected WITH AN ERROR VALUE": a panic on an invalid input is also charged to the acceptance rule
      Chk(pRej, "invalid_record_not_rejected_with_an_error_value:" \o KBase(kt), D.verdict = "reject" => o.kind \in {"ok", "err"})>>
    \o When(o.kind = "ok",
         LET c == tab[o.core] IN
         <<Chk("C03", "rec_accessor_panics", c.panics = <<>>),
           Chk("C09", "size_exact", c.size = Len(c.enc)),
           Chk("C09", "size_le_300", Len(c.enc) <= MaxSize),
           \* C04 speaks about every input the implementation accepts, whatever the specification thinks of it
           Chk("C04", "accepted_input_reencodes_to_itself", o.rest <= Len(b) /\ c.enc = SubSeq(b, 1, Len(b) - o.rest)),
           \* C01: whatever was accepted, the decoded record reports itself as verifying
           Chk("C01", "accepted_record_reports_itself_verifying", c.verify = <<TRUE>>),
           \* C05 speaks about every record obtained with Ok from decoding, whatever the input was
           Chk("C05", "decoded_record_has_id_v4_verifies_and_fits",
               IdOf(c.pairs) = <<V_v4>> /\ c.verify = <<TRUE>> /\ Len(c.enc) <= MaxSize)>>
         \o When(D.verdict = "accept",
           <<Chk("C04", "reencode_reproduces_input", c.enc = SubSeq(b, 1, D.consumed)),
             Chk("C04", "fields_match_parse", c.seq = D.seq /\ c.pairs = D.pairs /\ c.sig = D.sig),
             Chk("C04", "public_key_matches_parse", c.pk = <<D.pk>>),
             Chk("C04", "node_id_matches_parse", c.nid = D.nid),
             Chk("C10", "nid_is_hash_of_pk", c.nid = D.nid),
             Chk("C10", "nid_from_public_key", c.nid_pk = <<c.nid>>),
             Chk("C01", "decoded_record_verifies", c.verify = <<TRUE>>),
             Chk("C13", "advances_by_item_length", o.rest = Len(b) - D.consumed)>>)))

\* which property an acceptance of an invalid input is charged to
RejProp(D) == IF D.why = "sig" THEN "C01" ELSE IF D.why = "size" THEN "C09" ELSE "C02"

DecodeChecks(e) ==
  LET b == e.input
      ilen == FirstItemLen(b, 1)
      suffix == ilen > 0 /\ ilen < Len(b)
      n == Len(e.kts)
      \* k256 and libsecp follow the same rule: evaluate the specification once per class of key types
      P == Parse(b)
      fit == FactsFit(P, e.facts)
      Dc == [cl \in {KClass(e.kts[q]) : q \in 1..n} |-> Judge(cl, P, e.facts, fit)]
      D(q) == Dc[KClass(e.kts[q])]
      perKt(q) ==
        IF suffix /\ Len(e.alone) = n
        THEN \* the item alone is judged for C01/C02; the buffer with its suffix for C13
             OutcomeChecks(e.kts[q], SubSeq(b, 1, ilen), e.alone[q], D(q), e.tab, "C02", RejProp(D(q)), e.facts)
             \o <<Chk("C13", "same_outcome_with_suffix:" \o KBase(e.kts[q]),
                      e.res[q].kind = e.alone[q].kind /\ e.res[q].core = e.alone[q].core /\ e.res[q].err = e.alone[q].err),
                  Chk("C13", "advances_by_item_length",
                      e.res[q].kind = "ok" => e.res[q].rest = Len(b) - ilen)>>
        ELSE OutcomeChecks(e.kts[q], b, e.res[q], D(q), e.tab, "C02", RejProp(D(q)), e.facts)
      \* C11: key types that the specification treats alike must have behaved alike
      verd == [q \in 1..n |-> [v |-> D(q).verdict, why |-> D(q).why]]
      accCores == {e.res[q].core : q \in {k \in 1..n : verd[k].v = "accept" /\ e.res[k].kind = "ok"}}
      \* ... and key types for which the specification gives the same verdict must have given the same outcome
      sameOutcome == \A q1, q2 \in 1..n :
                       (verd[q1].v = verd[q2].v /\ verd[q1].v \in {"accept", "reject"})
                         => e.res[q1].kind = e.res[q2].kind
      agree == Cardinality(accCores) <= 1 /\ sameOutcome
      isolated == \A q \in 1..n : (verd[q].v = "reject" /\ verd[q].why = "pk") => e.res[q].kind # "ok"
      ext == IF e.ext = <<>> THEN <<>>
             ELSE LET qb == CHOOSE q \in 1..n : e.kts[q] = e.kt IN
                  IF e.res[qb].kind = "ok" THEN ExtChecks(e.tab[e.res[qb].core], e.ext[1], e.tab) ELSE <<>>
  IN <<Chk("TOOL", "first_item_length", e.ilen = ilen)>>
     \o Flatten([q \in 1..n |-> perKt(q)])
     \o <<Chk("C11", "key_types_agree", agree), Chk("C11", "schemes_isolated", isolated)>>
     \* C14: a valid record carrying typed fields (every port, every presence combination) is read, so that the
     \* accessors can be compared at all
     \o When(e.tag = "typed_decode",
             <<Chk("C14", "record_with_typed_fields_is_read", \A q \in 1..n : verd[q].v = "accept" => e.res[q].kind = "ok")>>)
     \o ext

\* the record a decode-like event binds to its handle (if any)
BoundCore(e) ==
  LET qs == {q \in 1..Len(e.kts) : e.kts[q] = e.kt} IN
  IF e.h = "" \/ qs = {} THEN <<>>
  ELSE LET q == CHOOSE q \in qs : TRUE IN
       IF e.res[q].kind = "ok" THEN <<e.tab[e.res[q].core]>> ELSE <<>>

(***************************************************************************)
(* text / JSON parse events (C12)                                          *)
(***************************************************************************)
TextChecks(e) ==
  LET P == IF e.isstr THEN ParseText(e.inner) ELSE [ok |-> FALSE, bytes |-> <<>>]
      cands == {i \in 1..Len(e.fcands) : e.fcands[i].bytes = P.bytes}
      F == IF P.ok /\ cands # {} THEN e.fcands[CHOOSE i \in cands : TRUE].facts ELSE <<>>
      n == Len(e.kts)
      PP == Parse(P.bytes)
      fit == ~PP.ok \/ (cands # {} /\ FactsFit(PP, F))
      Dc == [cl \in {KClass(e.kts[q]) : q \in 1..n} |-> Judge(cl, PP, F, fit)]
      D(q) == Dc[KClass(e.kts[q])]
      whole(q) == D(q).consumed = Len(P.bytes)
      one(q) ==
        LET o == e.res[q] IN
        <<Chk("C03", "parse_panics", o.kind # "panic")>>
        \o (IF ~P.ok THEN <<Chk("C12", "malformed_text_accepted", o.kind # "ok")>>
            ELSE <<Chk("TOOL", "text_facts", fit)>>
              \o When(fit,
                <<Chk("C12", "valid_text_rejected", (D(q).verdict = "accept" /\ whole(q)) => o.kind # "err"),
                  Chk("C12", "text_with_trailing_bytes_accepted",
                      (D(q).verdict = "accept" /\ ~whole(q)) => o.kind # "ok"),
                  Chk(RejProp(D(q)), "invalid_record_accepted:" \o D(q).why, D(q).verdict = "reject" => o.kind # "ok")>>
                \o When(o.kind = "ok" /\ D(q).verdict = "accept" /\ whole(q),
                    LET c == e.tab[o.core] IN
                    <<Chk("C12", "parsed_record_is_the_encoded_one", c.enc = P.bytes),
                      Chk("C04", "fields_match_parse", c.seq = D(q).seq /\ c.pairs = D(q).pairs /\ c.sig = D(q).sig),
                      Chk("C04", "node_id_matches_parse", c.nid = D(q).nid),
                      Chk("C10", "nid_is_hash_of_pk", c.nid = D(q).nid),
                      Chk("C01", "decoded_record_verifies", c.verify = <<TRUE>>)>>)))
      ext == IF e.ext = <<>> THEN <<>>
             ELSE LET qb == CHOOSE q \in 1..n : e.kts[q] = e.kt IN
                  IF e.res[qb].kind = "ok" THEN ExtChecks(e.tab[e.res[qb].core], e.ext[1], e.tab) ELSE <<>>
  IN Flatten([q \in 1..n |-> one(q)]) \o ext

(***************************************************************************)
(* build / call / clone / compare events                                   *)
(***************************************************************************)
\* effective signature length of this call: the last successful signing call of a traced key, else 64
SigLen(e) ==
  LET okIdx == {i \in 1..Len(e.signs.log) : ~e.signs.log[i].failed} IN
  IF e.signs.traced /\ okIdx # {}
  THEN e.signs.log[CHOOSE i \in okIdx : \A j \in okIdx : j <= i].len
  ELSE BuiltinSigLen

\* outcome discipline shared by build and call: hard = causes that must make it fail, soft = may
OutcomeRule(e, hard, soft, A) ==
  LET ok == e.out.kind = "ok"  err == e.out.kind = "err" IN
  <<Chk("C03", "call_panics", e.out.kind # "panic"),
    \* a failure cause that applies makes the call return an error VALUE (a success and a panic are both violations)
    Chk("C07", "overflow_not_refused", A.overflow => err),
    Chk("C09", "oversize_not_refused", A.sizeErr => err),
    Chk("C05", "unsupported_id_not_refused", A.idErr => err),
    Chk("C05", "illtyped_value_not_refused", A.typedErr => err),
    Chk("C05", "signing_failure_swallowed", (e.fault = 1) => err),
    Chk("C08", "succeeded_although_a_failure_cause_applies", ok => hard = {}),
    Chk("C07", "refused_for_overflow_below_the_maximum",
        (err /\ e.out.err = "SequenceNumberTooHigh") => "SequenceNumberTooHigh" \in (hard \cup soft)),
    Chk("C09", "refused_for_size_but_fits",
        (err /\ e.out.err = "ExceedsMaxSize") => "ExceedsMaxSize" \in (hard \cup soft)),
    Chk("C08", "error_kind_matches_cause",
        (err /\ e.out.err # "ExceedsMaxSize") => e.out.err \in (hard \cup soft))>>

CallChecks(e) ==
  LET pre == RS[e.h]
      c == e.tab[e.post]
      A == Apply(pre, [m |-> e.m, args |-> e.args, spk |-> e.spk,
                       argpk |-> IF e.m = "set_public_key" THEN e.argpk ELSE <<>>,
                       fault |-> e.fault, siglen |-> SigLen(e), kt |-> e.kt])
      ok == e.out.kind = "ok"
      \* "refused for size exactly when exceeded" is stated for the built-in 64-byte schemes only: with a
      \* variable-length scheme a size refusal is admissible whenever the call could not know the final length
      soft == A.soft \cup (IF KBase(e.kt) = "var" THEN {"ExceedsMaxSize"} ELSE {})
  IN OutcomeRule(e, A.hard, soft, A)
     \o <<Chk("C08", "update_must_succeed", (A.hard = {} /\ soft = {}) => ok),
          \* C14 presupposes that a typed setter STORES a value of its type: a refusal without any cause is charged there too
          Chk("C14", "typed_setter_stores_the_value",
              (e.m \in {"set_ip", "set_tcp4", "set_tcp6", "set_udp4", "set_udp6", "set_udp_socket", "set_tcp_socket", "set_client_info"}
               /\ A.hard = {} /\ soft = {}) => ok)>>
     \o When(ok,
         <<Chk("C07", "seq_after_update", c.seq = A.seq),
           Chk("C08", "pairs_after_update", c.pairs = A.pairs),
           Chk("C08", "return_value", e.out.ret = A.ret),
           Chk("C05", "rekeyed_to_signer", c.nid = e.spk.nid
                        /\ StrEntry(c.pairs, PkKeyOf(e.spk.scheme)) = <<e.spk.pk>>)>>)
     \o When(~ok, <<Chk("C06", "failed_update_left_record_untouched", c = pre)>>)
     \o (LET \* CombinedKey, update signed with an ed25519 key on a record that carries a secp256k1 key: a change of
             \* scheme, which C05 does not quantify over -- if it is not refused its result is unspecified
             unspec == ok /\ KBase(e.kt) = "comb" /\ e.spk.scheme = "ed" /\ HasKey(pre.pairs, K_secp256k1)
         IN SelectSeq(RecChecks(e.kt, c, e.facts) \o MaybeExt(e, c) \o ReadBack(e),
                      \* (what every record satisfies whatever produced it stays: its node id is the id of the key its
                      \*  own public-key accessor returns; it decodes back, prints and compares like any other -- C10 C04 C12 C15)
                      LAMBDA x : ~(unspec /\ x.p = "C05")))

BuildChecks(e) ==
  LET B == Build(e.kt, e.calls, e.spk, e.fault, SigLen(e))
      ok == e.out.kind = "ok"
      A == [overflow |-> FALSE, sizeErr |-> B.size > MaxSize, idErr |-> FALSE,
            typedErr |-> (B.hard \ {"SigningError", "ExceedsMaxSize"}) # {}]
      soft == B.soft \cup (IF KBase(e.kt) = "var" THEN {"ExceedsMaxSize"} ELSE {})
  IN OutcomeRule(e, B.hard, soft, A)
     \o <<Chk("C08", "build_must_succeed", (B.hard = {} /\ soft = {}) => ok),
          Chk("C14", "builder_stores_the_values", (B.hard = {} /\ soft = {}) => ok)>>
     \o When(ok,
         LET c == e.tab[e.post] IN
         <<Chk("C07", "seq_of_built_record", c.seq = B.seq),
           Chk("C08", "pairs_of_built_record", c.pairs = B.pairs),
           Chk("C05", "keyed_to_signer", c.nid = e.spk.nid)>>
         \o RecChecks(e.kt, c, e.facts)
         \o MaybeExt(e, c)
         \o (IF e.ext = <<>> THEN <<>> ELSE BuilderReadBack(e.calls, e.ext[1], <<>>)))

CloneChecks(e) ==
  LET c == e.tab[e.post] IN
  <<Chk("C15", "clone_fields", e.from \in DOMAIN RS => c = RS[e.from])>>
  \o RecChecks(e.kt, c, e.facts) \o MaybeExt(e, c)

CompareChecks(e) ==
  LET a == RS[e.a]  b == RS[e.b]  r == e.r
      same == a.seq = b.seq /\ a.pairs = b.pairs /\ a.sig = b.sig /\ a.nid = b.nid
  IN <<Chk("C03", "compare_panics", r.panics = <<>>),
       Chk("C15", "symmetric", r.eq_ab = r.eq_ba /\ r.cc_ab = r.cc_ba),
       Chk("C15", "ne_is_not_eq", r.ne_ab = ~r.eq_ab),
       Chk("C15", "identical_records_equal", same => r.eq_ab),
       Chk("C15", "equal_implies_same_pairs", r.eq_ab => a.pairs = b.pairs),
       Chk("C15", "equal_implies_same_encoding", r.eq_ab => a.enc = b.enc),
       Chk("C15", "equal_implies_same_hash", r.eq_ab => r.hash_eq),
       Chk("C15", "differs_on_seq_key_or_signature",
           (a.seq # b.seq \/ a.nid # b.nid \/ a.sig # b.sig \/ a.pk # b.pk) => ~r.eq_ab),
       Chk("C15", "compare_content", r.cc_ab = (a.seq = b.seq /\ a.pairs = b.pairs)),
       \* Clone::clone_from: a record refreshed in place from another one is that other one
       Chk("C15", "clone_from_yields_the_source", r.cf_same),
       Chk("C10", "node_id_after_clone_from", r.cf_nid)>>

(***************************************************************************)
(* streams and lists of records (C13)                                      *)
(***************************************************************************)
\* facts of the item starting at index i
ItemFacts(e, i) ==
  LET s == {k \in 1..Len(e.ifacts) : e.ifacts[k].start = i} IN
  IF s = {} THEN <<>> ELSE <<e.ifacts[CHOOSE k \in s : TRUE]>>

RECURSIVE StreamWalk(_, _, _, _)
\* walk the results of back-to-back decoding; i = start index of the next record in e.input
StreamWalk(e, q, i, acc) ==
  IF q > Len(e.res) THEN acc
  ELSE LET b == e.input
           o == e.res[q]
           f == ItemFacts(e, i)
           ilen == FirstItemLen(b, i)
       IN IF f = <<>> \/ ilen = 0
          THEN acc \o <<Chk("C13", "stream_incomplete_item_accepted", o.kind # "ok")>>
          ELSE LET item == Slice(b, i, ilen)
                   D == Decode(e.kt, item, f[1].facts)
                   cs == <<Chk("TOOL", "stream_facts", ~D.fm /\ f[1].len = ilen),
                           Chk("C03", "decode_panics", o.kind # "panic"),
                           Chk("C13", "stream_valid_record_rejected", D.verdict = "accept" => o.kind # "err"),
                           Chk("C13", "stream_invalid_record_accepted", D.verdict = "reject" => o.kind # "ok"),
                           Chk("C13", "stream_record_fields",
                               (D.verdict = "accept" /\ o.kind = "ok") =>
                                  (e.tab[o.core].enc = item /\ o.rest = Len(b) - (i + ilen - 1)))>>
               IN IF o.kind = "ok" THEN StreamWalk(e, q + 1, i + ilen, acc \o cs) ELSE acc \o cs

StreamChecks(e) ==
  LET cs == StreamWalk(e, 1, 1, <<>>)
      \* the walk must not stop early: after all results either the buffer is exhausted or the last one failed
      n == Len(e.res)
  IN cs \o <<Chk("C13", "stream_complete",
                 n > 0 /\ (e.res[n].kind # "ok" \/ e.res[n].rest = 0))>>

ListChecks(e) ==
  LET b == e.input
      h == Hdr(b, 1, Len(b))
      isList == h.ok /\ h.list
      r == IF isList THEN Items(b, h.ps, h.ps + h.pl - 1) ELSE [ok |-> FALSE, items |-> <<>>]
      n == Len(r.items)
      D(k) == LET f == ItemFacts(e, r.items[k].s) IN
              IF f = <<>> THEN Rej("nofacts") ELSE Decode(e.kt, ItemBytes(b, r.items[k]), f[1].facts)
      allAcc == isList /\ r.ok /\ \A k \in 1..n : D(k).verdict = "accept"
      someRej == ~isList \/ ~r.ok \/ \E k \in 1..n : D(k).verdict = "reject"
  IN <<Chk("C03", "decode_panics", e.kind # "panic"),
       Chk("TOOL", "list_facts", (isList /\ r.ok) => \A k \in 1..n : ~D(k).fm),
       Chk("C13", "list_of_valid_records_rejected", allAcc => e.kind = "ok"),
       Chk("C13", "list_with_invalid_record_accepted", someRej => e.kind # "ok"),
       Chk("C13", "list_records_are_the_individual_ones",
           (allAcc /\ e.kind = "ok") =>
              (Len(e.cores) = n /\ \A k \in 1..n : e.tab[e.cores[k]].enc = ItemBytes(b, r.items[k]))),
       Chk("C13", "list_advances_exactly", (allAcc /\ e.kind = "ok") => e.rest = Len(b) - ((h.ps - 1) + h.pl))>>

(***************************************************************************)
(* NodeId (C16) and CombinedKey import/export (C17)                        *)
(***************************************************************************)
IdObsChecks(o, id) ==
  <<Chk("C16", "raw_bytes", o.raw = id /\ o.as_ref = id /\ o.from_arr = id /\ o.new = id),
    Chk("C16", "eq_raw", o.eq_raw /\ o.ne_other /\ o.copy_eq /\ o.hash_eq),
    Chk("C16", "json_form", o.json = JsonOf(id)),
    Chk("C16", "debug_form", o.debug = DebugOf(id)),
    \* ... also under the alternate flag and inside (pretty-)printed containers: "[\n    <id>,\n]", "Some(<id>)"
    Chk("C16", "debug_form_alternate", o.debug_alt = DebugOf(id)
                                        /\ o.debug_vec_alt = <<91, 10, 32, 32, 32, 32>> \o DebugOf(id) \o <<44, 10, 93>>
                                        /\ o.debug_opt = <<83, 111, 109, 101, 40>> \o DebugOf(id) \o <<41>>),
    Chk("C16", "display_form", o.display = DisplayOf(id) /\ o.to_string = o.display),
    Chk("C16", "json_round_trip", o.back = <<id>>),
    Chk("C16", "json_round_trip_other_entry_points", o.back_value = <<id>> /\ o.back_reader = <<id>> /\ o.back_slice = <<id>>),
    \* as the key of a JSON object the id is the same string
    Chk("C16", "map_key_form", o.key_back /\ o.key_doc = <<123>> \o JsonOf(id) \o <<58, 49, 125>>)>>

\* content of a JSON document that is a plain string literal without escapes: "...."
\* ... with \uXXXX escapes of ASCII characters decoded (the only escapes this specification reads)
RECURSIVE JsonBody(_, _, _)
JsonBody(cs, i, acc) ==
  IF i > Len(cs) THEN <<acc>>
  ELSE IF cs[i] = 92 THEN
         IF i + 5 <= Len(cs) /\ cs[i + 1] = 117 /\ \A k \in 2..5 : HexVal(cs[i + k]) < 16
         THEN LET v == HexVal(cs[i + 2]) * 4096 + HexVal(cs[i + 3]) * 256 + HexVal(cs[i + 4]) * 16 + HexVal(cs[i + 5]) IN
              IF v < 128 THEN JsonBody(cs, i + 6, Append(acc, v)) ELSE <<>>
         ELSE <<>>
  ELSE IF cs[i] = 34 \/ cs[i] < 32 \/ cs[i] >= 127 THEN <<>>
  ELSE JsonBody(cs, i + 1, Append(acc, cs[i]))

PlainJsonString(cs) ==
  IF Len(cs) >= 2 /\ cs[1] = 34 /\ cs[Len(cs)] = 34
  THEN JsonBody(SubSeq(cs, 2, Len(cs) - 1), 1, <<>>) ELSE <<>>

NodeIdChecks(e) ==
  <<Chk("C03", "nodeid_panics", e.panics = <<>>)>>
  \o (CASE e.kind = "parse" ->
            <<Chk("C16", "parse_only_32_bytes", e.ok = ParseOk(e.bytes))>>
            \o When(e.ok /\ ParseOk(e.bytes), IdObsChecks(e.id[1], e.bytes))
        [] e.kind = "new" -> <<Chk("C16", "new_ok", e.ok)>> \o When(e.ok, IdObsChecks(e.id[1], e.bytes))
        [] e.kind = "json" ->
            LET s == PlainJsonString(e.text) IN
            IF s = <<>> THEN <<>>     \* not a plain string literal: outside this specification (only C03 applies)
            ELSE LET P == FromStr(s[1]) IN
                 <<Chk("C16", "deserialise_accepts_exactly_64_hex", e.ok = P.ok),
                   Chk("C16", "deserialise_same_through_every_entry_point",
                       (e.via_reader # <<>>) = P.ok /\ (e.via_value # <<>> => (e.via_value[1] # <<>>) = P.ok)
                       /\ (P.ok => e.via_reader = <<P.bytes>> /\ e.via_value = <<<<P.bytes>>>>))>>
                 \o When(e.ok /\ P.ok, IdObsChecks(e.id[1], P.bytes)))

KeyChecks(e) ==
  LET valid == IF e.scheme = "secp" THEN ValidScalar(e.bytes) ELSE Len(e.bytes) = 32
      specified == e.scheme = "ed" \/ Len(e.bytes) = 32     \* wrong-length secp256k1 input: not quantified over
  IN <<Chk("C03", "key_import_panics", e.panics = <<>>)>>
     \o When(specified,
         <<Chk("C17", "import_succeeds_exactly_for_valid_secrets", e.ok = valid),
           Chk("TOOL", "indep_pub", valid => e.indep_pub # <<>>)>>
         \o When(e.ok /\ valid,
             <<Chk("C17", "export_returns_input", e.export = e.bytes),
               Chk("C17", "input_buffer_wiped", e.buf_after = Repeat(0, Len(e.bytes))),
               Chk("C17", "public_key_is_derived_from_secret", <<e.public>> = e.indep_pub),
               Chk("C17", "public_key_entry_name", e.pkkey = PkKeyOf(e.scheme)),
               Chk("C17", "record_built_with_imported_key", e.built > 0)>>
             \o When(e.built > 0,
                 LET c == e.tab[e.built] IN
                 RecChecks("comb", c, e.facts)
                 \o <<Chk("C17", "record_verifies_under_that_key",
                          StrEntry(c.pairs, PkKeyOf(e.scheme)) = e.indep_pub)>>))
        )

(***************************************************************************)
(* Further API surface: lists of records as a value, the EnrKey /          *)
(* EnrPublicKey traits of the built-in key types, key generation           *)
(***************************************************************************)
\* Vec<Enr<K>>: the encoding is the RLP list of the records' encodings, and it decodes back to them
EncListChecks(e) ==
  <<Chk("C03", "list_codec_panics", e.panics = <<>>),
    Chk("C13", "list_encoding_is_list_of_encodings", e.out = EncList(e.encs)),
    Chk("C13", "encoded_list_decodes_back",
        e.kind = "ok" /\ e.rest = 0 /\ Len(e.cores) = Len(e.origs)
        /\ \A k \in 1..Len(e.origs) : e.tab[e.cores[k]] = e.tab[e.origs[k]]),
    Chk("C15", "decoded_list_elements_equal_originals", e.kind = "ok" => e.all_eq)>>

\* public-key side of a key: encoded form, entry name, node id, sign / verify through the traits
PubKeyChecks(e) ==
  LET r == e.r  secp == e.spk.scheme = "secp" IN
  <<Chk("C03", "key_trait_panics", e.panics = <<>>),
    Chk("C11", "public_key_encoding", r.encode = e.spk.pk /\ Len(r.encode) = (IF secp THEN 33 ELSE 32)),
    Chk("C11", "public_key_entry_name", r.enr_key = PkKeyOf(e.spk.scheme)),
    Chk("C10", "node_id_of_public_key", r.nid = e.spk.nid),
    Chk("C10", "uncompressed_form", IF secp THEN Len(r.uncompressed) = 64 ELSE r.uncompressed = e.spk.pk),
    Chk("C01", "own_signature_verifies", r.verifies /\ e.sig_math),
    Chk("C01", "signature_bound_to_message", ~r.verifies_other_msg),
    Chk("C01", "signature_form", KBase(e.kt) = "var" \/ (Len(r.sig) = 64 /\ (secp => LowS(r.sig))))>>

\* the public-key parsers of the single-scheme key types: they accept exactly the valid keys (33-byte compressed
\* form for secp256k1; other lengths the back-ends may or may not support are left open), re-encode to the compressed
\* form, and give the node id of the independent derivation
DecPubChecks(e) ==
  LET F == e.facts  n == Len(e.bytes)
      secpOne(o, name) ==
        <<Chk("C11", "public_key_parser_accepts_valid_keys:" \o name, (n = 33 /\ F.secp_valid /\ F.secp_valid2) => o # <<>>),
          Chk("C11", "public_key_parser_refuses_invalid_keys:" \o name, (~F.secp_valid /\ ~F.secp_valid2) => o = <<>>),
          Chk("C11", "public_key_reencodes_compressed:" \o name, (o # <<>> /\ F.secp_valid) => o[1].enc = F.secp_compressed),
          Chk("C10", "node_id_of_parsed_key:" \o name, (o # <<>> /\ F.secp_valid) => o[1].nid = F.secp_nid)>>
  IN <<Chk("C03", "public_key_parser_panics", e.panics = <<>>),
       Chk("TOOL", "secp_oracles_agree_on_33_bytes", n = 33 => F.secp_valid = F.secp_valid2)>>
     \o secpOne(e.k256, "k256") \o secpOne(e.libsecp, "libsecp")
     \o <<Chk("C11", "secp_back_ends_agree_on_compressed_keys", n = 33 => (e.k256 = e.libsecp)),
          Chk("C11", "ed25519_parser_accepts_exactly_valid_keys", (e.ed # <<>>) = F.ed_valid),
          Chk("C10", "node_id_of_parsed_ed25519_key", e.ed # <<>> => (e.ed[1].enc = e.bytes /\ e.ed[1].nid = F.ed_nid))>>

\* the verification primitive of every public-key type: true exactly for a 64-byte (low-S for ECDSA) signature that
\* is mathematically a signature of the message under that key
VerifyRawChecks(e) ==
  LET want == IF e.scheme = "secp" THEN Len(e.sig) = 64 /\ LowS(e.sig) /\ e.sm ELSE Len(e.sig) = 64 /\ e.sm
      kts == DOMAIN e.outs
  IN <<Chk("C03", "verify_panics", e.panics = <<>>),
       Chk("TOOL", "sig_oracles_agree", e.sm = e.sm2),
       Chk("C01", "verify_v4_is_the_v4_rule", \A kt \in kts : e.outs[kt] = <<want>>),
       Chk("C11", "verify_v4_same_on_every_key_type", \A a, b \in kts : e.outs[a] = e.outs[b])>>

KeyGenChecks(e) ==
  <<Chk("C03", "keygen_panics", e.panics = <<>>),
    Chk("C17", "generated_secret_is_valid", IF e.scheme = "secp" THEN ValidScalar(e.export) ELSE Len(e.export) = 32),
    Chk("C17", "generated_public_key_is_derived_from_secret", <<e.public>> = e.indep_pub),
    Chk("C17", "generated_key_reimports", e.reimport_ok /\ e.reimport_public = e.public),
    Chk("C17", "public_key_entry_name", e.pkkey = PkKeyOf(e.scheme))>>

(***************************************************************************)
(* The trace machine                                                       *)
(***************************************************************************)
ChecksOf(e) ==
  CASE e.t = "decode"    -> DecodeChecks(e)
    [] e.t \in {"from_str", "from_json"} -> TextChecks(e)
    [] e.t = "build"     -> BuildChecks(e)
    [] e.t = "call"      -> IF e.h \in DOMAIN RS THEN CallChecks(e)
                            ELSE <<Chk("TOOL", "call_on_unknown_handle", FALSE)>>
    [] e.t = "clone"     -> CloneChecks(e)
    [] e.t = "compare"   -> IF e.a \in DOMAIN RS /\ e.b \in DOMAIN RS THEN CompareChecks(e)
                            ELSE <<Chk("TOOL", "compare_unknown_handle", FALSE)>>
    [] e.t = "stream"    -> StreamChecks(e)
    [] e.t = "list"      -> ListChecks(e)
    [] e.t = "nodeid"    -> NodeIdChecks(e)
    [] e.t = "keyimport" -> KeyChecks(e)
    [] e.t = "enclist"   -> EncListChecks(e)
    [] e.t = "pubkey"    -> PubKeyChecks(e)
    [] e.t = "keygen"    -> KeyGenChecks(e)
    [] e.t = "decpub"    -> DecPubChecks(e)
    [] e.t = "verifyraw" -> VerifyRawChecks(e)
    [] OTHER             -> <<>>

Bind(rs, h, c) == IF h = "" THEN rs ELSE (h :> c) @@ rs
Unbind(rs, h) == [x \in (DOMAIN rs) \ {h} |-> rs[x]]

NextRecs(e) ==
  CASE e.t \in {"decode", "from_str", "from_json"} ->
         LET c == BoundCore(e) IN
         IF e.h = "" THEN RS ELSE IF c = <<>> THEN Unbind(RS, e.h) ELSE Bind(RS, e.h, c[1])
    [] e.t = "build" -> IF e.out.kind = "ok" THEN Bind(RS, e.h, e.tab[e.post]) ELSE Unbind(RS, e.h)
    [] e.t \in {"call", "clone"} -> Bind(RS, e.h, e.tab[e.post])
    [] e.t = "reset" -> <<>>
    [] OTHER -> RS

\* vacuity accounting: TLC register 7 maps "property/check" to the number of events in which that check was
\* evaluated (single worker; printed by the postcondition, summed over the chunks by the orchestrator)
CountReg == 7
AddCounts(cnt, cs) ==
  LET ks == {cs[k].p \o "/" \o cs[k].c : k \in 1..Len(cs)} IN
  [x \in (DOMAIN cnt) \cup ks |-> (IF x \in DOMAIN cnt THEN cnt[x] ELSE 0) + (IF x \in ks THEN 1 ELSE 0)]

Init == l = 1 /\ recs = <<>> /\ nbad = 0 /\ TLCSet(CountReg, <<>>)

Next ==
  /\ l <= Len(Rec)
  /\ LET e == Rec[l]
         cs == ChecksOf(e)
         f == Fails(cs)
     IN /\ TLCSet(CountReg, AddCounts(TLCGet(CountReg), cs))
        /\ IF f = <<>> THEN nbad' = nbad
           ELSE /\ nbad' = nbad + 1
                /\ PrintT("BAD " \o ToJson([l |-> l, sid |-> e.sid, i |-> e.i, t |-> e.t,
                                            fails |-> [k \in 1..Len(f) |-> [p |-> f[k].p, c |-> f[k].c]]]))
        /\ recs' = NextRecs(e)
  /\ l' = l + 1

Spec == Init /\ [][Next]_vars

\* every event was consumed (the verdicts are in the BAD lines)
Consumed ==
  LET d == TLCGet("stats").diameter IN
  /\ PrintT("COUNTS " \o ToJson(TLCGet(CountReg)))
  /\ PrintT("DONE " \o ToString(d - 1) \o " of " \o ToString(Len(Rec)))
  /\ d - 1 = Len(Rec)

=============================================================================
