------------------------------- MODULE MC_Stream ------------------------------
(* C13, bounded-exhaustive: the acceptance rule looks at the first RLP item only.  *)
(* For a set of complete items (valid records of several sizes incl. exactly 300   *)
(* and 301 bytes, structurally invalid records, a string item, tiny lists) and     *)
(* EVERY suffix of 0..2 arbitrary bytes (65 793 suffixes) plus long suffixes, the  *)
(* parse of item ++ suffix equals the parse of the item alone, and streams of      *)
(* items are split exactly at the item boundaries.                                 *)
EXTENDS EnrCodec, KeysGen, TLC

CONSTANT S2     \* the values the second suffix byte ranges over (256 = no second byte)
VARIABLES item, s1, s2, long
vars == <<item, s1, s2, long>>

Sig64 == Repeat(1, 64)
Base == Put(Put(<<>>, K_id, EncStr(V_v4)), K_secp256k1, EncStr(K1.pk))
Rec(seq, extra) == Encode(seq, extra, Sig64)
WithPad(n) == Put(Base, <<122>>, EncStr(Repeat(170, n)))
Unsorted == EncList(<<EncStr(Sig64), EncStr(<<1>>), EncStr(K_udp), EncStr(<<1>>), EncStr(K_id), EncStr(V_v4)>>)

Its == << Rec(<<1>>, Base), Rec(<<>>, Put(Base, K_udp, EncStr(<<118, 95>>))),
            Rec(<<1>>, WithPad(177)), Rec(<<1>>, WithPad(178)), Rec(<<255, 255>>, WithPad(100)),
            Unsorted, EncStr(Repeat(7, 40)), <<192>>, <<5>>, EncList(<<EncStr(Sig64)>>) >>

Suffix == (IF s1 = 256 THEN <<>> ELSE <<s1>>) \o (IF s2 = 256 THEN <<>> ELSE <<s2>>)
          \o (IF long = 0 THEN <<>> ELSE IF long = 1 THEN Repeat(0, 400) ELSE Its[1] \o Its[2])

Init == /\ item \in 1..Len(Its)
        /\ s1 \in 0..256 /\ s2 \in S2 /\ (s1 = 256 => s2 = 256)
        /\ long \in 0..2 /\ (long > 0 => s1 = 256)
Next == UNCHANGED vars
Spec == Init /\ [][Next]_vars

PrefixLocal ==
  LET x == Its[item]
      P0 == Parse(x)
      P1 == Parse(x \o Suffix)
  IN /\ FirstItemLen(x \o Suffix, 1) = Len(x)
     /\ P1 = P0
     /\ P0.ok => P0.consumed = Len(x)

\* sizes of the limit records are what the comments say
Sizes == Len(Its[3]) = 300 /\ Len(Its[4]) = 301 /\ Parse(Its[3]).ok /\ Parse(Its[4]).why = "size"
         /\ Parse(Its[1]).ok /\ Parse(Its[6]).why = "order"
=============================================================================
