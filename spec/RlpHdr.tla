-------------------------------- MODULE RlpHdr --------------------------------
(* Canonical RLP framing over byte sequences. Index based (no copying while   *)
(* parsing). An item descriptor is [list, s, ps, pl]: kind, start index of the *)
(* header, start index of the payload, payload length.  Header level only      *)
(* (non-recursive; RlpProofs.tla proves its lemmas with TLAPS).                *)
EXTENDS BytesCore

Bad(e)  == [ok |-> FALSE, err |-> e, list |-> FALSE, ps |-> 0, pl |-> 0]
Good(l, ps, pl) == [ok |-> TRUE, err |-> "", list |-> l, ps |-> ps, pl |-> pl]

\* long form: lol = number of length bytes following the tag at index i
LongHdr(b, i, lim, lol, isList) ==
  IF lim - i < lol THEN Bad("short")
  ELSE IF b[i + 1] = 0 THEN Bad("leadingzero")
  ELSE IF lol > 2 THEN Bad("short")      \* >= 65536: beyond every buffer this specification is applied to
  ELSE LET v == IF lol = 1 THEN b[i + 1] ELSE b[i + 1] * 256 + b[i + 2] IN
       IF v < 56 THEN Bad("noncanonsize")
       ELSE IF lim - (i + lol) < v THEN Bad("short")
       ELSE Good(isList, i + lol + 1, v)

\* header of the item starting at b[i]; lim = last usable index of b
Hdr(b, i, lim) ==
  IF i > lim THEN Bad("short")
  ELSE LET c == b[i] IN
    IF c < 128 THEN Good(FALSE, i, 1)
    ELSE IF c <= 183 THEN
         LET pl == c - 128 IN
         IF pl = 1 /\ i + 1 > lim THEN Bad("short")
         ELSE IF pl = 1 /\ b[i + 1] < 128 THEN Bad("noncanonbyte")
         ELSE IF lim - i < pl THEN Bad("short")
         ELSE Good(FALSE, i + 1, pl)
    ELSE IF c <= 191 THEN LongHdr(b, i, lim, c - 183, FALSE)
    ELSE IF c <= 247 THEN
         LET pl == c - 192 IN
         IF lim - i < pl THEN Bad("short") ELSE Good(TRUE, i + 1, pl)
    ELSE LongHdr(b, i, lim, c - 247, TRUE)


ItemLen(it) == (it.ps - it.s) + it.pl
ItemEnd(it) == it.ps + it.pl - 1
Payload(b, it) == Slice(b, it.ps, it.pl)
ItemBytes(b, it) == Slice(b, it.s, ItemLen(it))


\* b is exactly one canonically framed item (top level only)
OneItem(b) ==
  LET h == Hdr(b, 1, Len(b)) IN h.ok /\ (h.ps - 1) + h.pl = Len(b)

\* an unsigned integer payload: no leading zero, at most maxlen bytes
IsCanonInt(b, it, maxlen) == ~it.list /\ it.pl <= maxlen /\ (it.pl > 0 => b[it.ps] # 0)

(***************************************************************************)
(* Encoding                                                                *)
(***************************************************************************)
EncHdr(isList, n) ==
  LET base == IF isList THEN 192 ELSE 128 IN
  IF n < 56 THEN <<base + n>>
  ELSE IF n < 256 THEN <<base + 56, n>>
  ELSE <<base + 57, n \div 256, n % 256>>

HdrLen(n) == IF n < 56 THEN 1 ELSE IF n < 256 THEN 2 ELSE 3

EncStr(s) == IF Len(s) = 1 /\ s[1] < 128 THEN s ELSE EncHdr(FALSE, Len(s)) \o s
EncStrLen(s) == IF Len(s) = 1 /\ s[1] < 128 THEN 1 ELSE HdrLen(Len(s)) + Len(s)


\* unsigned integer given as minimal big-endian bytes (0 = <<>>  ->  0x80)
EncUint(be) == EncStr(be)

=============================================================================
