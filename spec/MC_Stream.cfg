SPECIFICATION Spec
CONSTANTS
  S2 = {0, 1, 127, 128, 183, 184, 192, 247, 248, 255, 256}
INVARIANTS PrefixLocal Sizes
CHECK_DEADLOCK FALSE
