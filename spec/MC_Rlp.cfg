SPECIFICATION Spec
CONSTANTS
  MaxLen = 400
INVARIANTS RoundTrip Prefixes NonCanonical Split
CHECK_DEADLOCK FALSE
