-------------------------------- MODULE NodeId --------------------------------
(* The NodeId value type (C16): exact 32-byte identity, strict parse, hex forms. *)
EXTENDS Hex

\* parsing a byte slice succeeds only for exactly 32 bytes and yields those bytes
ParseOk(slice) == Len(slice) = 32

\* JSON form: the string 0x followed by 64 lower-case hex digits (with the quotes)
JsonOf(id) == <<34>> \o C_0x \o HexEnc(id) \o <<34>>
DebugOf(id) == C_0x \o HexEnc(id)
\* Display: first and last two bytes
DisplayOf(id) == C_0x \o HexEnc(SubSeq(id, 1, 2)) \o <<46, 46>> \o HexEnc(SubSeq(id, 31, 32))

\* deserialisation of the string content s: at most one leading 0x removed, then exactly 64 hex digits
FromStr(s) == HexDec(IF IsPrefixOf(C_0x, s) THEN SubSeq(s, 3, Len(s)) ELSE s, 32)

=============================================================================
