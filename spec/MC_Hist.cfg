SPECIFICATION Spec
CONSTANTS
  MaxDepth = 2
  KT = "k256"
  Dev = "none"
  Emit = FALSE
VIEW View
INVARIANTS InvValid InvSize InvNid InvEq InvTotal
ACTION_CONSTRAINTS ActProps EmitT
CHECK_DEADLOCK FALSE
