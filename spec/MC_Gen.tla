-------------------------------- MODULE MC_Gen --------------------------------
(* Decoder inputs as SHAPES: a sequence number item, a sequence of key/value      *)
(* items drawn from an alphabet that contains well-typed and ill-typed values,    *)
(* in any order (so unsorted and duplicate keys arise by themselves), a signature *)
(* class and an outer-header class.  TLC enumerates every shape up to MaxPairs    *)
(* pairs and checks on each one                                                   *)
(*   (a) validity BY CONSTRUCTION  <=>  acceptance by the parser-shaped rule      *)
(*       EnrCodec!Decode, for every key type (C02, C11);                          *)
(*   (b) the staged rule Decode  <=>  the declarative rule AcceptDecl (C02);      *)
(*   (c) accepted bytes re-encode to themselves and decode to the fields the      *)
(*       shape was built from (C04);                                              *)
(* and prints every shape so that the harness can concretise it with real         *)
(* signatures and run it against the implementation (spec -> impl).               *)
EXTENDS EnrCodec, KeysGen, TLC, Json

CONSTANTS MaxPairs,   \* bound on the number of key/value pairs
          Classes,    \* the pair classes (indices into PairClasses) shapes may use
          Scheme,     \* scheme of the signing key of the shapes: "secp" | "ed"
          Emit

VARIABLES seqc, pairs, sigc, outer, stage
vars == <<seqc, pairs, sigc, outer, stage>>

Signer == IF Scheme = "secp" THEN K1 ELSE E1
PkKey == IF Scheme = "secp" THEN K_secp256k1 ELSE K_ed25519
OtherPkKey == IF Scheme = "secp" THEN K_ed25519 ELSE K_secp256k1
OtherPk == IF Scheme = "secp" THEN E1.pk ELSE K1.pk

S(b) == [k |-> "s", b |-> b]      \* canonical string item
X(b) == [k |-> "x", b |-> b]      \* verbatim bytes
IB(it) == IF it.k = "s" THEN EncStr(it.b) ELSE it.b

\* sequence-number item classes: [item, ok]
SeqClasses == <<
  [it |-> S(<<1>>), ok |-> TRUE], [it |-> S(<<>>), ok |-> TRUE], [it |-> S(Repeat(255, 8)), ok |-> TRUE],
  [it |-> S(<<128>>), ok |-> TRUE],
  [it |-> X(<<130, 0, 1>>), ok |-> FALSE],        \* leading zero
  [it |-> X(<<0>>), ok |-> FALSE],                \* zero as the byte 00
  [it |-> S(Repeat(1, 9)), ok |-> FALSE],         \* wider than 64 bits
  [it |-> X(<<193, 1>>), ok |-> FALSE],           \* a list
  [it |-> X(<<129, 5>>), ok |-> FALSE] >>         \* non-canonical single byte

K_a  == <<97>>
K_zz == <<122, 122>>
Junk33 == <<2>> \o Repeat(255, 32)

\* key/value alphabet: [key item, value item, ok]  (ok = well-formed and well-typed by construction)
PairClasses == <<
  [k |-> S(K_id),  v |-> S(V_v4), ok |-> TRUE],
  [k |-> S(K_id),  v |-> S(<<118, 53>>), ok |-> FALSE],
  [k |-> S(K_ip),  v |-> S(<<127, 0, 0, 1>>), ok |-> TRUE],
  [k |-> S(K_ip),  v |-> S(<<127, 0, 1>>), ok |-> FALSE],
  [k |-> S(K_ip6), v |-> S(Repeat(0, 15) \o <<1>>), ok |-> TRUE],
  [k |-> S(K_ip6), v |-> S(<<127, 0, 0, 1>>), ok |-> FALSE],
  [k |-> S(K_tcp), v |-> S(<<80>>), ok |-> TRUE],
  [k |-> S(K_tcp), v |-> X(<<130, 0, 80>>), ok |-> FALSE],
  [k |-> S(K_udp6), v |-> S(<<>>), ok |-> TRUE],
  [k |-> S(K_udp6), v |-> S(<<1, 0, 0>>), ok |-> FALSE],
  [k |-> S(K_udp), v |-> X(<<193, 80>>), ok |-> FALSE],
  [k |-> S(PkKey), v |-> S(Signer.pk), ok |-> TRUE],
  [k |-> S(PkKey), v |-> S(Junk33), ok |-> FALSE],
  [k |-> S(OtherPkKey), v |-> S(OtherPk), ok |-> TRUE],
  [k |-> S(K_a),   v |-> S(<<1>>), ok |-> TRUE],
  [k |-> S(K_a),   v |-> X(<<129, 5>>), ok |-> FALSE],
  [k |-> S(K_zz),  v |-> X(<<194, 1, 128>>), ok |-> TRUE],
  [k |-> S(K_zz),  v |-> X(<<1, 2>>), ok |-> FALSE],          \* two items where one value belongs
  [k |-> S(K_zz),  v |-> X(<<133, 1, 2>>), ok |-> FALSE],     \* item overrunning the list
  [k |-> S(<<>>),  v |-> S(<<7>>), ok |-> TRUE],
  [k |-> X(<<193, 97>>), v |-> S(<<1>>), ok |-> FALSE],       \* a list as key
  [k |-> S(K_zz),  v |-> S(Repeat(170, 150)), ok |-> TRUE],   \* filler: pushes some shapes over 300 bytes
  [k |-> S(OtherPkKey), v |-> S(Junk33), ok |-> TRUE] >>      \* an invalid key of the OTHER scheme: no obstacle

SigClasses == <<"valid", "wrong_key", "other_content", "len63", "list", "len65">>
OuterClasses == <<"exact", "minus1", "plus1", "string", "long">>

(***************************************************************************)
(* bytes of a shape                                                        *)
(***************************************************************************)
RestBytes == IB(SeqClasses[seqc].it) \o
             Flatten([i \in 1..Len(pairs) |-> IB(PairClasses[pairs[i]].k) \o IB(PairClasses[pairs[i]].v)])

Msg == EncHdr(TRUE, Len(RestBytes)) \o RestBytes

\* a 64-byte low-S looking token per signature class (the mathematics is in the facts)
SigToken == Repeat(1, 63) \o <<1 + sigc>>
SigItem ==
  CASE SigClasses[sigc] = "len63" -> EncStr(SubSeq(SigToken, 1, 63))
    [] SigClasses[sigc] = "len65" -> EncStr(SigToken \o <<17>>)
    [] SigClasses[sigc] = "list"  -> EncList(<<EncStr(SigToken)>>)
    [] OTHER -> EncStr(SigToken)
SigPayload == IF SigClasses[sigc] = "len63" THEN SubSeq(SigToken, 1, 63)
              ELSE IF SigClasses[sigc] = "len65" THEN SigToken \o <<17>> ELSE SigToken

Payload0 == SigItem \o RestBytes
Bytes0 ==
  LET n == Len(Payload0) IN
  CASE OuterClasses[outer] = "exact"  -> EncHdr(TRUE, n) \o Payload0
    [] OuterClasses[outer] = "minus1" -> EncHdr(TRUE, n - 1) \o Payload0
    [] OuterClasses[outer] = "plus1"  -> EncHdr(TRUE, n + 1) \o Payload0
    [] OuterClasses[outer] = "string" -> EncHdr(FALSE, n) \o Payload0
    [] OuterClasses[outer] = "long"   -> (IF n < 256 THEN <<248, n>> ELSE <<249, n \div 256, n % 256>>) \o Payload0

\* the canonical header is already the long form for payloads of 56 bytes or more
LongIsCanonical == Len(Payload0) >= 56

(***************************************************************************)
(* validity by construction                                                *)
(***************************************************************************)
KeyOf(i) == PairClasses[pairs[i]].k.b
AllOk == SeqClasses[seqc].ok /\ \A i \in 1..Len(pairs) : PairClasses[pairs[i]].ok
Sorted == \A i \in 1..(Len(pairs) - 1) : LexLt(KeyOf(i), KeyOf(i + 1))
Has(cls) == \E i \in 1..Len(pairs) : pairs[i] = cls
HasId == Has(1)
HasOwnPk == Has(12)
HasOtherPk == Has(14)
FramingOk == OuterClasses[outer] = "exact" \/ (OuterClasses[outer] = "long" /\ LongIsCanonical)
SizeOk == Len(Bytes0) <= MaxSize

\* valid for the scheme of its signer
ValidShape == AllOk /\ Sorted /\ HasId /\ HasOwnPk /\ SigClasses[sigc] = "valid" /\ FramingOk /\ SizeOk

\* expected verdict under key type kt
Expected(kt) ==
  IF ~ValidShape THEN "reject"
  ELSE CASE KBase(kt) = "k256" -> IF Scheme = "secp" THEN "accept" ELSE "reject"
         [] KBase(kt) = "ed"   -> IF Scheme = "ed" THEN "accept" ELSE "reject"
         [] KBase(kt) = "comb" -> \* a valid secp256k1 entry takes precedence over the ed25519 one
                                  IF Scheme = "ed" /\ HasOtherPk THEN "reject" ELSE "accept"

(***************************************************************************)
(* oracle facts of the shape (perfect cryptography)                        *)
(***************************************************************************)
FindPk(key) ==
  LET idx == {i \in 1..Len(pairs) : PairClasses[pairs[i]].k = S(key) /\ PairClasses[pairs[i]].v.k = "s"} IN
  IF idx = {} THEN <<>> ELSE <<PairClasses[pairs[CHOOSE i \in idx : TRUE]].v.b>>

\* derived: the message the bytes imply (what an independent splitter reads from them); the signature was made
\* over Msg, so it is valid for the derived message only if the two coincide
FactsFor(derived) ==
  LET sp == FindPk(K_secp256k1)  ep == FindPk(K_ed25519)
      sv == sp # <<>> /\ sp[1] \in {K1.pk, K2.pk}
      ev == ep # <<>> /\ ep[1] \in {E1.pk, E2.pk}
      signedOk == SigClasses[sigc] = "valid" /\ derived = Msg
      ssm == sv /\ signedOk /\ Scheme = "secp" /\ sp[1] = Signer.pk
      esm == ev /\ signedOk /\ Scheme = "ed" /\ ep[1] = Signer.pk
      nidOf(pk) == CASE pk = K1.pk -> K1.nid [] pk = K2.pk -> K2.nid [] pk = E1.pk -> E1.nid [] pk = E2.pk -> E2.nid
  IN [ok |-> TRUE, msg |-> derived, sig |-> SigPayload,
      secp |-> [present |-> sp # <<>>, pk |-> IF sp # <<>> THEN sp[1] ELSE <<>>, valid |-> sv, valid2 |-> sv,
                sm |-> ssm, sm2 |-> ssm, nid |-> IF sv THEN nidOf(sp[1]) ELSE <<>>, nid2 |-> IF sv THEN nidOf(sp[1]) ELSE <<>>],
      ed |-> [present |-> ep # <<>>, pk |-> IF ep # <<>> THEN ep[1] ELSE <<>>, valid |-> ev, sm |-> esm,
              nid |-> IF ev THEN nidOf(ep[1]) ELSE <<>>]]

(***************************************************************************)
(* enumeration                                                             *)
(***************************************************************************)
Init == seqc \in 1..Len(SeqClasses) /\ pairs = <<>> /\ sigc = 1 /\ outer = 1 /\ stage = "pairs"

AddPair == /\ stage = "pairs" /\ Len(pairs) < MaxPairs
           /\ \E c \in Classes : pairs' = Append(pairs, c)
           /\ UNCHANGED <<seqc, sigc, outer, stage>>

Finish == /\ stage = "pairs"
          /\ stage' = "done"
          /\ \/ sigc' \in 1..Len(SigClasses) /\ outer' = 1      \* one defect dimension at a time on top of the
             \/ sigc' = 1 /\ outer' \in 2..Len(OuterClasses)      \* sequence / pair dimensions
          /\ UNCHANGED <<seqc, pairs>>

Next == AddPair \/ Finish
Spec == Init /\ [][Next]_vars

(***************************************************************************)
(* properties of every finished shape                                      *)
(***************************************************************************)
KTs == {"k256", "ed", "comb"}

\* (a) C02 / C11: acceptance <=> validity by construction, per key type ("open" never arises in this alphabet)
\* (b) C02: the staged rule Parse/Judge says exactly what the declarative rule AcceptDecl says
\* (c) C04: what is accepted re-encodes to itself, yields the fields it was built from, and decodes again
ShapeProps ==
  stage = "done" =>
    LET b == Bytes0
        P == Parse(b)
        F == FactsFor(IF P.ok THEN P.msg ELSE Msg)
        fit == FactsFit(P, F)
        whole == P.ok => P.consumed = Len(b)
    IN /\ (P.ok /\ whole) => fit                          \* the model's facts belong to its own bytes
       /\ \A kt \in KTs :
            LET D == Judge(kt, P, F, fit) IN
            /\ IF whole THEN D.verdict = Expected(kt)
               ELSE \* outer header shorter than the payload: the first item is a proper prefix
                    D.verdict = "reject"
            /\ (D.verdict = "accept") <=> AcceptDecl(kt, b, F)
            /\ D.verdict = "accept" =>
                 /\ Encode(D.seq, D.pairs, D.sig) = SubSeq(b, 1, D.consumed)
                 /\ D.seq = SeqClasses[seqc].it.b
                 /\ D.sig = SigPayload
                 /\ Len(D.pairs) = Len(pairs)
                 /\ \A i \in 1..Len(pairs) : D.pairs[i] = <<KeyOf(i), IB(PairClasses[pairs[i]].v)>>

\* spec -> impl: the shape in the harness' BYTESPEC language, with the verdict the specification expects
ItemJson(it) == IF it.k = "s" THEN [s |-> it.b] ELSE [x |-> it.b]
ShapeJson ==
  LET items == <<ItemJson(SeqClasses[seqc].it)>> \o
               Flatten([i \in 1..Len(pairs) |-> <<ItemJson(PairClasses[pairs[i]].k), ItemJson(PairClasses[pairs[i]].v)>>])
  IN [items |-> items, sigc |-> SigClasses[sigc], outer |-> OuterClasses[outer], by |-> Signer.name,
      valid |-> ValidShape, nbytes |-> Len(Bytes0)]

EmitShape == (Emit /\ stage' = "done") => PrintT("SHAPE " \o ToJson(ShapeJson'))

\* non-vacuity probes (must be violated)
NoValidShape == stage = "done" => ~ValidShape
NoValidBigShape == stage = "done" => ~(ValidShape /\ Len(pairs) >= MaxPairs /\ Len(Bytes0) > 200)

=============================================================================
