SPECIFICATION Spec
CONSTANTS
  MaxCalls = 3
  KT = "k256"
  Emit = FALSE
  Dev = "none"
INVARIANTS BuildProps Commute
ACTION_CONSTRAINT EmitB
CHECK_DEADLOCK FALSE
