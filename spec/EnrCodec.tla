------------------------------ MODULE EnrCodec ------------------------------
(* Record <-> bytes.  Decode(kt, b, F) is the acceptance rule of EIP-778 records  *)
(* for key type kt over the FIRST RLP item of the buffer b (prefix-local), with   *)
(* the cryptographic relations supplied as oracle facts F:                        *)
(*   F.secp / F.ed = [present, pk, valid, sm, nid, ...]  "pk is a valid key",     *)
(*   "F.sig is mathematically a signature of F.msg under pk", node id of pk.      *)
(* Everything else -- which bytes are msg / pk / sig, framing, typing, ordering,  *)
(* size, the 64-byte and low-S rules, scheme precedence -- is decided here.       *)
EXTENDS Rlp

MaxSize == 300

KBase(kt) ==
  CASE kt \in {"k256", "wk256"}       -> "k256"
    [] kt \in {"libsecp", "wlibsecp"} -> "libsecp"
    [] kt \in {"ed", "wed"}           -> "ed"
    [] kt \in {"comb", "wcomb"}       -> "comb"
    [] kt = "var"                     -> "var"

OwnPkKeys(kt) ==
  CASE KBase(kt) \in {"k256", "libsecp", "var"} -> {K_secp256k1}
    [] KBase(kt) = "ed"                          -> {K_ed25519}
    [] KBase(kt) = "comb"                        -> {K_secp256k1, K_ed25519}

(***************************************************************************)
(* Encoding of a record (seq: minimal BE bytes, pairs: sorted sequence of  *)
(* <<key, raw RLP value>>, sig: bytes)                                     *)
(***************************************************************************)
RECURSIVE PairsBytes(_)
PairsBytes(ps) == IF ps = <<>> THEN <<>> ELSE EncStr(Head(ps)[1]) \o Head(ps)[2] \o PairsBytes(Tail(ps))

RECURSIVE PairsLen(_)
PairsLen(ps) == IF ps = <<>> THEN 0 ELSE EncStrLen(Head(ps)[1]) + Len(Head(ps)[2]) + PairsLen(Tail(ps))

\* the signed payload: [seq, k1, v1, ...] as an RLP list
Content(seq, pairs) == LET p == EncStr(seq) \o PairsBytes(pairs) IN EncHdr(TRUE, Len(p)) \o p

Encode(seq, pairs, sig) ==
  LET p == EncStr(sig) \o EncStr(seq) \o PairsBytes(pairs) IN EncHdr(TRUE, Len(p)) \o p

\* length of Encode without building it; siglen = length of the signature
EncLenOf(seq, pairs, siglen) ==
  LET sl == IF siglen = 1 THEN 1 ELSE HdrLen(siglen) + siglen   \* a 1-byte signature < 0x80 would be 1 byte; never relevant
      p == sl + EncStrLen(seq) + PairsLen(pairs)
  IN HdrLen(p) + p

ContentLen(seq, pairs) == LET p == EncStrLen(seq) + PairsLen(pairs) IN HdrLen(p) + p

(***************************************************************************)
(* Sorted pair sequences as maps                                           *)
(***************************************************************************)
HasKey(ps, k) == \E i \in 1..Len(ps) : ps[i][1] = k
Lookup(ps, k) == LET i == CHOOSE i \in 1..Len(ps) : ps[i][1] = k IN ps[i][2]
\* Option as a sequence of length 0 or 1
LookupOpt(ps, k) == IF HasKey(ps, k) THEN <<Lookup(ps, k)>> ELSE <<>>
Del(ps, k) == SelectSeq(ps, LAMBDA p : p[1] # k)
Put(ps, k, v) ==
  LET lo == SelectSeq(ps, LAMBDA p : LexLt(p[1], k))
      hi == SelectSeq(ps, LAMBDA p : LexLt(k, p[1]))
  IN lo \o <<<<k, v>>>> \o hi
IsSortedPairs(ps) == \A i \in 1..(Len(ps) - 1) : LexLt(ps[i][1], ps[i + 1][1])

\* payload of the value stored under k, if that value is exactly one string item
StrEntry(ps, k) ==
  IF ~HasKey(ps, k) THEN <<>>
  ELSE LET v == Lookup(ps, k)  h == Hdr(v, 1, Len(v)) IN
       IF h.ok /\ ~h.list /\ (h.ps - 1) + h.pl = Len(v) THEN <<Slice(v, h.ps, h.pl)>> ELSE <<>>

(***************************************************************************)
(* Decoding                                                                *)
(***************************************************************************)
Rej(why) == [verdict |-> "reject", why |-> why, consumed |-> 0, seq |-> <<>>, pairs |-> <<>>,
             sig |-> <<>>, scheme |-> "", pk |-> <<>>, nid |-> <<>>, fm |-> FALSE]

\* class of one value item under key k: "ok" | "bad" | "open" | "pklist" (a list under a public-key key:
\* ill-typed for a key type that uses this key, unspecified for the others)
ValueClass0(b, k, it) ==
  IF k = K_id THEN (IF ~it.list /\ Payload(b, it) = V_v4 THEN "ok" ELSE "bad")
  ELSE IF k \in PortKeys THEN (IF IsCanonInt(b, it, 2) THEN "ok" ELSE "bad")
  ELSE IF k = K_ip THEN (IF ~it.list /\ it.pl = 4 THEN "ok" ELSE "bad")
  ELSE IF k = K_ip6 THEN (IF ~it.list /\ it.pl = 16 THEN "ok" ELSE "bad")
  ELSE IF k \in {K_secp256k1, K_ed25519} THEN (IF ~it.list THEN "ok" ELSE "pklist")
  ELSE IF it.list THEN (IF DeepOk(b, it.ps, it.ps + it.pl - 1) THEN "ok" ELSE "open")
  ELSE "ok"

ValueClass(b, k, it, kt) ==
  LET c == ValueClass0(b, k, it) IN
  IF c = "pklist" THEN (IF k \in OwnPkKeys(kt) THEN "bad" ELSE "open") ELSE c

\* items[3..] as pairs; n = number of pairs
PairAt(b, items, j) == <<Payload(b, items[2 * j + 1]), ItemBytes(b, items[2 * j + 2])>>

SecpStatus(F) ==
  IF ~F.secp.present THEN "absent"
  ELSE IF Len(F.secp.pk) = 33 THEN (IF F.secp.valid THEN "valid" ELSE "invalid")
  ELSE IF F.secp.valid \/ F.secp.valid2 THEN "open" ELSE "invalid"

EdStatus(F) == IF ~F.ed.present THEN "absent" ELSE IF F.ed.valid THEN "valid" ELSE "invalid"

\* which scheme kt verifies with: "secp" | "ed" | "reject" | "open"
SchemeFor(kt, F) ==
  LET ss == SecpStatus(F)  es == EdStatus(F)
      one(st, sch) == IF st = "valid" THEN sch ELSE IF st = "open" THEN "open" ELSE "reject"
  IN CASE KBase(kt) \in {"k256", "libsecp", "var"} -> one(ss, "secp")
       [] KBase(kt) = "ed" -> one(es, "ed")
       [] KBase(kt) = "comb" ->
            IF ss = "valid" THEN "secp"
            ELSE IF ss = "open" THEN "open"
            ELSE one(es, "ed")      \* no valid secp256k1 entry: exactly the ed25519 key type's rule (C11)

SigOk(kt, scheme, sig, F) ==
  IF KBase(kt) = "var" THEN F.var_sm
  ELSE IF scheme = "secp" THEN Len(sig) = 64 /\ LowS(sig) /\ F.secp.sm
  ELSE Len(sig) = 64 /\ F.ed.sm

\* the oracle facts were computed for the same pk / msg / sig the specification derives from the bytes
FactsMatch(F, msg, sig, pairs) ==
  /\ F.ok
  /\ F.msg = msg /\ F.sig = sig
  /\ LET sp == StrEntry(pairs, K_secp256k1)  ep == StrEntry(pairs, K_ed25519) IN
     /\ F.secp.present = (sp # <<>>) /\ (sp # <<>> => F.secp.pk = sp[1])
     /\ F.ed.present = (ep # <<>>) /\ (ep # <<>> => F.ed.pk = ep[1])
  /\ (F.secp.present /\ Len(F.secp.pk) = 33 =>
        F.secp.valid = F.secp.valid2 /\ F.secp.sm = F.secp.sm2 /\ F.secp.nid = F.secp.nid2)

(***************************************************************************)
(* Parse: the part of the acceptance rule that does not depend on the key  *)
(* type (framing, size, shape, ordering, typing of reserved values).       *)
(***************************************************************************)
PRej(why) == [ok |-> FALSE, why |-> why, consumed |-> 0, seq |-> <<>>, pairs |-> <<>>, sig |-> <<>>,
              msg |-> <<>>, anyOpen |-> FALSE, pkLists |-> {}]

Parse(b) ==
  LET h == Hdr(b, 1, Len(b)) IN
  IF ~h.ok THEN PRej("outer:" \o h.err)
  ELSE IF ~h.list THEN PRej("outer:string")
  ELSE LET consumed == (h.ps - 1) + h.pl IN
  IF consumed > MaxSize THEN PRej("size")
  ELSE LET r == Items(b, h.ps, h.ps + h.pl - 1)  items == r.items  n == Len(items) IN
  IF ~r.ok THEN PRej("item")
  ELSE IF n < 2 THEN PRej("short")
  ELSE IF items[1].list THEN PRej("sig:list")
  ELSE IF ~IsCanonInt(b, items[2], 8) THEN PRej("seq")
  ELSE IF (n - 2) % 2 # 0 THEN PRej("odd")
  ELSE LET np == (n - 2) \div 2
           keyIt(j) == items[2 * j + 1]
           valIt(j) == items[2 * j + 2]
           keys == [j \in 1..np |-> Payload(b, keyIt(j))]
           cls == [j \in 1..np |-> ValueClass0(b, keys[j], valIt(j))]
       IN
  IF \E j \in 1..np : keyIt(j).list THEN PRej("key:list")
  ELSE IF \E j \in 1..(np - 1) : ~LexLt(keys[j], keys[j + 1]) THEN PRej("order")
  ELSE IF \E j \in 1..np : cls[j] = "bad" THEN PRej("value")
  ELSE IF ~\E j \in 1..np : keys[j] = K_id THEN PRej("noid")
  ELSE LET restStart == items[2].s
           restLen == (h.ps + h.pl) - restStart
       IN [ok |-> TRUE, why |-> "", consumed |-> consumed,
           seq |-> Payload(b, items[2]),
           pairs |-> [j \in 1..np |-> PairAt(b, items, j)],
           sig |-> Payload(b, items[1]),
           msg |-> EncHdr(TRUE, restLen) \o Slice(b, restStart, restLen),
           anyOpen |-> \E j \in 1..np : cls[j] = "open",
           pkLists |-> {keys[j] : j \in {i \in 1..np : cls[i] = "pklist"}}]

\* the facts belong to this parse (or the parse failed and no facts are needed)
FactsFit(P, F) == P.ok => FactsMatch(F, P.msg, P.sig, P.pairs)

(***************************************************************************)
(* Judge: the key-type dependent part (which public key, which signature   *)
(* rule), given the parse and the oracle facts.                            *)
(***************************************************************************)
Judge(kt, P, F, fit) ==
  IF ~P.ok THEN Rej(P.why)
  ELSE IF (P.pkLists \cap OwnPkKeys(kt)) # {} THEN Rej("value")
  ELSE IF ~fit THEN [Rej("factmismatch") EXCEPT !.fm = TRUE]
  ELSE LET sch == SchemeFor(kt, F)
           anyOpen == P.anyOpen \/ P.pkLists # {}
           res(v, s) == [verdict |-> v, why |-> "", consumed |-> P.consumed, seq |-> P.seq, pairs |-> P.pairs,
                         sig |-> P.sig, scheme |-> s,
                         pk |-> IF s = "secp" THEN F.secp.pk ELSE IF s = "ed" THEN F.ed.pk ELSE <<>>,
                         nid |-> IF s = "secp" THEN F.secp.nid ELSE IF s = "ed" THEN F.ed.nid ELSE <<>>,
                         fm |-> FALSE]
       IN
  IF sch = "reject" THEN Rej("pk")
  ELSE IF sch = "open" THEN res("open", "")
  ELSE IF ~SigOk(kt, sch, P.sig, F) THEN Rej("sig")
  ELSE IF anyOpen THEN res("open", sch)
  ELSE res("accept", sch)

Decode(kt, b, F) == LET P == Parse(b) IN Judge(kt, P, F, FactsFit(P, F))

(***************************************************************************)
(* The same acceptance rule stated declaratively (property C02), used by   *)
(* MC_Gen to show that the staged definition above says exactly this.      *)
(***************************************************************************)
AcceptDecl(kt, b, F) ==
  LET h == Hdr(b, 1, Len(b)) IN
  /\ h.ok /\ h.list
  /\ (h.ps - 1) + h.pl <= MaxSize
  /\ LET r == Items(b, h.ps, h.ps + h.pl - 1)  it == r.items  n == Len(it) IN
     /\ r.ok /\ n >= 2 /\ n % 2 = 0
     /\ ~it[1].list
     /\ IsCanonInt(b, it[2], 8)
     /\ \A j \in 1..((n - 2) \div 2) :
          /\ ~it[2 * j + 1].list
          /\ ValueClass(b, Payload(b, it[2 * j + 1]), it[2 * j + 2], kt) = "ok"
          /\ (j > 1 => LexLt(Payload(b, it[2 * j - 1]), Payload(b, it[2 * j + 1])))
     /\ \E j \in 1..((n - 2) \div 2) : Payload(b, it[2 * j + 1]) = K_id
     /\ LET sch == SchemeFor(kt, F) IN
        /\ sch \in {"secp", "ed"}
        /\ SigOk(kt, sch, Payload(b, it[1]), F)

(***************************************************************************)
(* Streams and lists of records (C13)                                      *)
(***************************************************************************)
\* number of bytes of the first item of b[i..], 0 if there is no complete item
FirstItemLen(b, i) == LET h == Hdr(b, i, Len(b)) IN IF h.ok THEN (h.ps - i) + h.pl ELSE 0

=============================================================================
