---------------------------- MODULE RlpProofsAt ----------------------------
(* The lemmas of RlpProofs for an item at ANY position of a buffer (nested     *)
(* items, the second record of a stream): TLAPS-checked.                       *)
EXTENDS RlpHdr, TLAPS

\* first-item locality at index i: a successful header read depends only on the bytes i..lim
THEOREM HdrIsLocalAt ==
  ASSUME NEW b \in Seq(Byte), NEW c \in Seq(Byte), NEW i \in Nat, i >= 1, NEW lim \in Nat, NEW lim2 \in Nat,
         lim <= Len(b), lim <= lim2, lim2 <= Len(c), \A j \in i..lim : c[j] = b[j], Hdr(b, i, lim).ok
  PROVE  Hdr(c, i, lim2) = Hdr(b, i, lim)
<1>0. i <= lim /\ b[i] \in 0..255 /\ c[i] = b[i] /\ \A j \in 1..Len(b) : b[j] \in 0..255
  BY DEF Hdr, Bad, Byte
<1>1. CASE b[i] < 128
  BY <1>0, <1>1 DEF Hdr
<1>2. CASE b[i] >= 128 /\ b[i] <= 183
  <2>1. lim - i >= b[i] - 128 /\ ~(b[i] - 128 = 1 /\ i + 1 > lim) /\ ~(b[i] - 128 = 1 /\ b[i + 1] < 128)
    BY <1>0, <1>2 DEF Hdr, Bad, Good
  <2>2. b[i] - 128 = 1 => c[i + 1] = b[i + 1]
    BY <2>1, <1>0
  <2> QED BY <1>0, <1>2, <2>1, <2>2 DEF Hdr, Good
<1>3. CASE b[i] >= 184 /\ b[i] <= 191
  <2> DEFINE lol == b[i] - 183
  <2>1. Hdr(b, i, lim) = LongHdr(b, i, lim, lol, FALSE) /\ Hdr(c, i, lim2) = LongHdr(c, i, lim2, lol, FALSE)
    BY <1>0, <1>3 DEF Hdr
  <2>2. lol \in {1, 2} /\ lim - i >= lol /\ c[i + 1] = b[i + 1] /\ (lol = 2 => c[i + 2] = b[i + 2])
    BY <2>1, <1>0, <1>3 DEF LongHdr, Bad
  <2>3. b[i + 1] \in 0..255 /\ (lol = 2 => b[i + 2] \in 0..255)
    BY <2>2, <1>0
  <2> QED BY <2>1, <2>2, <2>3, <1>0 DEF LongHdr, Bad, Good
<1>4. CASE b[i] >= 192 /\ b[i] <= 247
  BY <1>0, <1>4 DEF Hdr, Bad, Good
<1>5. CASE b[i] >= 248
  <2> DEFINE lol == b[i] - 247
  <2>1. Hdr(b, i, lim) = LongHdr(b, i, lim, lol, TRUE) /\ Hdr(c, i, lim2) = LongHdr(c, i, lim2, lol, TRUE)
    BY <1>0, <1>5 DEF Hdr
  <2>2. lol \in {1, 2} /\ lim - i >= lol /\ c[i + 1] = b[i + 1] /\ (lol = 2 => c[i + 2] = b[i + 2])
    BY <2>1, <1>0, <1>5 DEF LongHdr, Bad
  <2>3. b[i + 1] \in 0..255 /\ (lol = 2 => b[i + 2] \in 0..255)
    BY <2>2, <1>0
  <2> QED BY <2>1, <2>2, <2>3, <1>0 DEF LongHdr, Bad, Good
<1> QED BY <1>0, <1>1, <1>2, <1>3, <1>4, <1>5

\* canonicity at index i
THEOREM AcceptedStringIsCanonicalAt ==
  ASSUME NEW b \in Seq(Byte), NEW i \in Nat, i >= 1, NEW lim \in Nat, lim <= Len(b), Hdr(b, i, lim).ok, ~Hdr(b, i, lim).list
  PROVE  LET h == Hdr(b, i, lim) IN EncStr(Slice(b, h.ps, h.pl)) = Slice(b, i, (h.ps - i) + h.pl)
<1> DEFINE h == Hdr(b, i, lim)
<1>0. i <= lim /\ b[i] \in 0..255 /\ \A j \in 1..Len(b) : b[j] \in 0..255
  BY DEF Hdr, Bad, Byte
<1>1. CASE b[i] < 128
  <2>1. h = Good(FALSE, i, 1)
    BY <1>0, <1>1 DEF Hdr
  <2>2. Slice(b, i, 1) = <<b[i]>>
    BY DEF Slice
  <2>3. EncStr(<<b[i]>>) = <<b[i]>>
    BY <1>1 DEF EncStr
  <2> QED BY <2>1, <2>2, <2>3 DEF Good
<1>2. CASE b[i] >= 128 /\ b[i] <= 183
  <2> DEFINE pl == b[i] - 128
  <2>1. h = Good(FALSE, i + 1, pl) /\ lim - i >= pl /\ (pl = 1 => b[i + 1] >= 128)
    BY <1>0, <1>2 DEF Hdr, Bad, Good
  <2> DEFINE p == Slice(b, i + 1, pl)
  <2>2. Len(p) = pl /\ p \in Seq(Byte) /\ \A k \in 1..pl : p[k] = b[i + k]
    BY <1>0, <1>2, <2>1 DEF Slice, Byte
  <2>2a. pl = 1 => (p[1] = b[i + 1] /\ b[i + 1] >= 128 /\ b[i + 1] \in 0..255)
    BY <2>1, <2>2, <1>0
  <2>2b. pl \in 0..55
    BY <1>0, <1>2
  <2>3. ~(Len(p) = 1 /\ p[1] < 128) /\ Len(p) < 56
    BY <2>2, <2>2a, <2>2b
  <2>4. EncStr(p) = <<128 + pl>> \o p
    BY <2>2, <2>3 DEF EncStr, EncHdr
  <2>5. Slice(b, i, 1 + pl) = <<128 + pl>> \o p
    BY <2>2, <1>0, <1>2, <2>1 DEF Slice
  <2> QED BY <2>1, <2>4, <2>5 DEF Good
<1>3. CASE b[i] >= 184 /\ b[i] <= 191
  <2>1. h = LongHdr(b, i, lim, b[i] - 183, FALSE)
    BY <1>0, <1>3 DEF Hdr
  <2>2. b[i] - 183 \in {1, 2} /\ lim >= i + 1
    BY <2>1, <1>0, <1>3 DEF LongHdr, Bad
  <2>3. CASE b[i] = 184
    <3> DEFINE v == b[i + 1]
    <3>1. h = Good(FALSE, i + 2, v) /\ v >= 56 /\ lim - (i + 1) >= v /\ v \in 0..255
      BY <2>1, <2>2, <2>3, <1>0 DEF LongHdr, Bad, Good
    <3> DEFINE p == Slice(b, i + 2, v)
    <3>2. Len(p) = v /\ p \in Seq(Byte) /\ \A k \in 1..v : p[k] = b[i + 1 + k]
      BY <1>0, <3>1 DEF Slice, Byte
    <3>3. EncStr(p) = <<184, v>> \o p
      BY <3>1, <3>2 DEF EncStr, EncHdr
    <3>4. Slice(b, i, 2 + v) = <<184, v>> \o p
      BY <3>2, <1>0, <2>3, <3>1 DEF Slice
    <3> QED BY <3>1, <3>3, <3>4 DEF Good
  <2>4. CASE b[i] = 185
    <3> DEFINE v == (b[i + 1] * 256) + b[i + 2]
    <3>0. lim >= i + 2 /\ b[i + 1] \in 1..255 /\ b[i + 2] \in 0..255
      BY <2>1, <2>4, <1>0 DEF LongHdr, Bad
    <3>1. h = Good(FALSE, i + 3, v) /\ v >= 256 /\ lim - (i + 2) >= v /\ v < 65536
      BY <2>1, <2>4, <3>0, <1>0 DEF LongHdr, Bad, Good
    <3> DEFINE p == Slice(b, i + 3, v)
    <3>2. Len(p) = v /\ p \in Seq(Byte) /\ \A k \in 1..v : p[k] = b[i + 2 + k]
      BY <1>0, <3>1, <3>0 DEF Slice, Byte
    <3>3. v \div 256 = b[i + 1] /\ v % 256 = b[i + 2]
      BY <3>0
    <3>3z. v \in Nat /\ ~(v < 56) /\ ~(v < 256) /\ 128 + 57 = 185
      BY <3>0, <3>1
    <3>3y. EncHdr(FALSE, v) = <<128 + 57, v \div 256, v % 256>>
      BY <3>3z DEF EncHdr
    <3>3a. EncHdr(FALSE, v) = <<185, b[i + 1], b[i + 2]>>
      BY <3>3y, <3>3z, <3>3
    <3>3b. Len(p) # 1
      BY <3>1, <3>2
    <3>4. EncStr(p) = <<185, b[i + 1], b[i + 2]>> \o p
      BY <3>2, <3>3a, <3>3b DEF EncStr
    <3>5. Slice(b, i, 3 + v) = <<185, b[i + 1], b[i + 2]>> \o p
      BY <3>2, <1>0, <2>4, <3>1, <3>0 DEF Slice
    <3> QED BY <3>1, <3>4, <3>5 DEF Good
  <2> QED BY <2>2, <2>3, <2>4, <1>0
<1>4. CASE b[i] >= 192
  <2>1. CASE b[i] <= 247
    BY <2>1, <1>4, <1>0 DEF Hdr, Good, Bad
  <2>2. CASE b[i] >= 248
    <3>1. h = LongHdr(b, i, lim, b[i] - 247, TRUE)
      BY <1>0, <2>2 DEF Hdr
    <3> QED BY <3>1 DEF LongHdr, Good, Bad
  <2> QED BY <2>1, <2>2, <1>0
<1> QED BY <1>0, <1>1, <1>2, <1>3, <1>4

\* the header reader inverts the string encoder at any position: after any prefix, before any suffix
THEOREM HdrOfEncStrAt ==
  ASSUME NEW s \in Seq(Byte), Len(s) < 65536, NEW pre \in Seq(Byte), NEW rest \in Seq(Byte)
  PROVE  LET b == (pre \o EncStr(s)) \o rest
             i == Len(pre) + 1
             h == Hdr(b, i, Len(b))
         IN /\ h = Good(FALSE, i + (EncStrLen(s) - Len(s)), Len(s))
            /\ Slice(b, h.ps, h.pl) = s
<1> DEFINE n == Len(s)
<1> DEFINE k == Len(pre)
<1> DEFINE b == (pre \o EncStr(s)) \o rest
<1>0. n \in Nat /\ k \in Nat /\ Len(rest) \in Nat /\ \A p \in 1..n : s[p] \in 0..255
  BY DEF Byte
<1>1. CASE n = 1 /\ s[1] < 128
  <2>1. EncStr(s) = s /\ EncStrLen(s) = 1
    BY <1>1 DEF EncStr, EncStrLen
  <2>2. Len(b) = k + 1 + Len(rest) /\ b[k + 1] = s[1]
    BY <2>1, <1>1, <1>0
  <2>3. Hdr(b, k + 1, Len(b)) = Good(FALSE, k + 1, 1)
    BY <2>2, <1>1, <1>0 DEF Hdr
  <2>4. Slice(b, k + 1, 1) = s
    BY <2>2, <1>1, <1>0 DEF Slice
  <2> QED BY <2>1, <2>3, <2>4, <1>1, <1>0 DEF Good
<1>2. CASE ~(n = 1 /\ s[1] < 128) /\ n < 56
  <2>1. EncStr(s) = <<128 + n>> \o s /\ EncStrLen(s) = 1 + n
    BY <1>2 DEF EncStr, EncStrLen, EncHdr, HdrLen
  <2>2. Len(b) = k + 1 + n + Len(rest) /\ b[k + 1] = 128 + n /\ \A p \in 1..n : b[k + 1 + p] = s[p]
    BY <2>1, <1>0
  <2>3. Hdr(b, k + 1, Len(b)) = Good(FALSE, k + 2, n)
    <3>1. n = 1 => b[k + 2] >= 128
      BY <2>2, <1>2, <1>0
    <3> QED BY <2>2, <1>2, <1>0, <3>1 DEF Hdr
  <2>4. Slice(b, k + 2, n) = s
    BY <2>2, <1>0 DEF Slice
  <2> QED BY <2>1, <2>3, <2>4, <1>0 DEF Good
<1>3. CASE n >= 56 /\ n < 256
  <2>1. EncStr(s) = <<184, n>> \o s /\ EncStrLen(s) = 2 + n
    BY <1>3 DEF EncStr, EncStrLen, EncHdr, HdrLen
  <2>2. Len(b) = k + 2 + n + Len(rest) /\ b[k + 1] = 184 /\ b[k + 2] = n /\ \A p \in 1..n : b[k + 2 + p] = s[p]
    BY <2>1, <1>0
  <2>3. Hdr(b, k + 1, Len(b)) = Good(FALSE, k + 3, n)
    BY <2>2, <1>3, <1>0 DEF Hdr, LongHdr
  <2>4. Slice(b, k + 3, n) = s
    BY <2>2, <1>0 DEF Slice
  <2> QED BY <2>1, <2>3, <2>4, <1>0 DEF Good
<1>4. CASE n >= 256
  <2>0. n \div 256 \in 1..255 /\ n % 256 \in 0..255 /\ ((n \div 256) * 256) + (n % 256) = n
    BY <1>4, <1>0
  <2>1. EncStr(s) = <<185, n \div 256, n % 256>> \o s /\ EncStrLen(s) = 3 + n
    BY <1>4 DEF EncStr, EncStrLen, EncHdr, HdrLen
  <2>2. Len(b) = k + 3 + n + Len(rest) /\ b[k + 1] = 185 /\ b[k + 2] = n \div 256 /\ b[k + 3] = n % 256
        /\ \A p \in 1..n : b[k + 3 + p] = s[p]
    BY <2>1, <1>0
  <2>3. Hdr(b, k + 1, Len(b)) = Good(FALSE, k + 4, n)
    BY <2>2, <2>0, <1>4, <1>0 DEF Hdr, LongHdr
  <2>4. Slice(b, k + 4, n) = s
    BY <2>2, <1>0 DEF Slice
  <2> QED BY <2>1, <2>3, <2>4, <1>0 DEF Good
<1> QED BY <1>1, <1>2, <1>3, <1>4, <1>0
=============================================================================
