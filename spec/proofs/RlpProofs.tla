----------------------------- MODULE RlpProofs -----------------------------
(* TLAPS-checked lemmas about the header level of Rlp.tla (RlpHdr), for byte   *)
(* strings of every length below 65536 and every suffix.                       *)
EXTENDS RlpHdr, TLAPS

\* the header reader inverts the string encoder, whatever follows the item
THEOREM HdrOfEncStr ==
  ASSUME NEW s \in Seq(Byte), Len(s) < 65536, NEW rest \in Seq(Byte)
  PROVE  LET b == EncStr(s) \o rest
             h == Hdr(b, 1, Len(b))
         IN /\ h = Good(FALSE, (EncStrLen(s) - Len(s)) + 1, Len(s))
            /\ Slice(b, h.ps, h.pl) = s
            /\ Len(EncStr(s)) = EncStrLen(s)
<1> DEFINE n == Len(s)
<1> DEFINE b == EncStr(s) \o rest
<1>0. n \in Nat /\ Len(rest) \in Nat /\ \A p \in 1..n : s[p] \in 0..255
  BY DEF Byte
<1>1. CASE n = 1 /\ s[1] < 128
  <2>1. EncStr(s) = s /\ EncStrLen(s) = 1
    BY <1>1 DEF EncStr, EncStrLen
  <2>2. Len(b) = 1 + Len(rest) /\ b[1] = s[1]
    BY <2>1, <1>1, <1>0
  <2>3. Hdr(b, 1, Len(b)) = Good(FALSE, 1, 1)
    BY <2>2, <1>1, <1>0 DEF Hdr
  <2>4. Slice(b, 1, 1) = s
    BY <2>2, <1>1, <1>0 DEF Slice
  <2> QED BY <2>1, <2>3, <2>4, <1>1 DEF Good
<1>2. CASE ~(n = 1 /\ s[1] < 128) /\ n < 56
  <2>1. EncStr(s) = <<128 + n>> \o s /\ EncStrLen(s) = 1 + n
    BY <1>2 DEF EncStr, EncStrLen, EncHdr, HdrLen
  <2>2. Len(b) = 1 + n + Len(rest) /\ b[1] = 128 + n /\ \A p \in 1..n : b[1 + p] = s[p]
    BY <2>1, <1>0
  <2>3. Hdr(b, 1, Len(b)) = Good(FALSE, 2, n)
    <3>1. n = 1 => b[2] >= 128
      BY <2>2, <1>2, <1>0
    <3> QED BY <2>2, <1>2, <1>0, <3>1 DEF Hdr
  <2>4. Slice(b, 2, n) = s
    BY <2>2, <1>0 DEF Slice
  <2>5. Len(EncStr(s)) = 1 + n
    BY <2>1, <1>0
  <2> QED BY <2>1, <2>3, <2>4, <2>5 DEF Good
<1>3. CASE n >= 56 /\ n < 256
  <2>1. EncStr(s) = <<184, n>> \o s /\ EncStrLen(s) = 2 + n
    BY <1>3 DEF EncStr, EncStrLen, EncHdr, HdrLen
  <2>2. Len(b) = 2 + n + Len(rest) /\ b[1] = 184 /\ b[2] = n /\ \A p \in 1..n : b[2 + p] = s[p]
    BY <2>1, <1>0
  <2>3. Hdr(b, 1, Len(b)) = Good(FALSE, 3, n)
    BY <2>2, <1>3, <1>0 DEF Hdr, LongHdr
  <2>4. Slice(b, 3, n) = s
    BY <2>2, <1>0 DEF Slice
  <2>5. Len(EncStr(s)) = 2 + n
    BY <2>1, <1>0
  <2> QED BY <2>1, <2>3, <2>4, <2>5 DEF Good
<1>4. CASE n >= 256
  <2>0. n \div 256 \in 1..255 /\ n % 256 \in 0..255 /\ ((n \div 256) * 256) + (n % 256) = n
    BY <1>4, <1>0
  <2>1. EncStr(s) = <<185, n \div 256, n % 256>> \o s /\ EncStrLen(s) = 3 + n
    BY <1>4 DEF EncStr, EncStrLen, EncHdr, HdrLen
  <2>2. Len(b) = 3 + n + Len(rest) /\ b[1] = 185 /\ b[2] = n \div 256 /\ b[3] = n % 256 /\ \A p \in 1..n : b[3 + p] = s[p]
    BY <2>1, <1>0
  <2>3. Hdr(b, 1, Len(b)) = Good(FALSE, 4, n)
    BY <2>2, <2>0, <1>4, <1>0 DEF Hdr, LongHdr
  <2>4. Slice(b, 4, n) = s
    BY <2>2, <1>0 DEF Slice
  <2>5. Len(EncStr(s)) = 3 + n
    BY <2>1, <1>0
  <2> QED BY <2>1, <2>3, <2>4, <2>5 DEF Good
<1> QED BY <1>1, <1>2, <1>3, <1>4, <1>0

\* what a successful header read guarantees about the indices
LEMMA HdrShape ==
  ASSUME NEW b \in Seq(Byte), NEW lim \in Nat, lim <= Len(b), Hdr(b, 1, lim).ok
  PROVE  LET h == Hdr(b, 1, lim) IN
         /\ lim >= 1 /\ h.ps \in 1..4 /\ h.pl \in Nat /\ (h.ps - 1) + h.pl <= lim
         /\ h.list \in BOOLEAN
<1>0. lim >= 1 /\ b[1] \in 0..255
  BY DEF Hdr, Bad, Byte
<1>a. \A i \in 1..Len(b) : b[i] \in 0..255
  BY DEF Byte
<1>1. CASE b[1] < 128
  BY <1>0, <1>1 DEF Hdr, Good, Bad
<1>2. CASE b[1] >= 128 /\ b[1] <= 183
  BY <1>0, <1>2 DEF Hdr, Good, Bad
<1>3. CASE b[1] >= 184 /\ b[1] <= 191
  <2>1. Hdr(b, 1, lim) = LongHdr(b, 1, lim, b[1] - 183, FALSE)
    BY <1>0, <1>3 DEF Hdr
  <2>2. lim >= 2 /\ b[2] \in 0..255 /\ (b[1] - 183 = 2 => lim >= 3 /\ b[3] \in 0..255)
    BY <2>1, <1>0, <1>a, <1>3 DEF LongHdr, Bad
  <2> QED BY <2>1, <2>2, <1>0, <1>3 DEF LongHdr, Good, Bad
<1>4. CASE b[1] >= 192 /\ b[1] <= 247
  BY <1>0, <1>4 DEF Hdr, Good, Bad
<1>5. CASE b[1] >= 248
  <2>1. Hdr(b, 1, lim) = LongHdr(b, 1, lim, b[1] - 247, TRUE)
    BY <1>0, <1>5 DEF Hdr
  <2>2. lim >= 2 /\ b[2] \in 0..255 /\ (b[1] - 247 = 2 => lim >= 3 /\ b[3] \in 0..255)
    BY <2>1, <1>0, <1>a, <1>5 DEF LongHdr, Bad
  <2> QED BY <2>1, <2>2, <1>0, <1>5 DEF LongHdr, Good, Bad
<1> QED BY <1>0, <1>1, <1>2, <1>3, <1>4, <1>5

\* canonicity: an accepted string item IS the encoding of its payload (so re-encoding reproduces the input)
THEOREM AcceptedStringIsCanonical ==
  ASSUME NEW b \in Seq(Byte), NEW lim \in Nat, lim <= Len(b), Hdr(b, 1, lim).ok, ~Hdr(b, 1, lim).list
  PROVE  LET h == Hdr(b, 1, lim) IN EncStr(Slice(b, h.ps, h.pl)) = Slice(b, 1, (h.ps - 1) + h.pl)
<1> DEFINE h == Hdr(b, 1, lim)
<1>0. lim >= 1 /\ b[1] \in 0..255 /\ \A i \in 1..Len(b) : b[i] \in 0..255
  BY DEF Hdr, Bad, Byte
<1>1. CASE b[1] < 128
  <2>1. h = Good(FALSE, 1, 1)
    BY <1>0, <1>1 DEF Hdr
  <2>2. Slice(b, 1, 1) = <<b[1]>>
    BY DEF Slice
  <2>3. EncStr(<<b[1]>>) = <<b[1]>>
    BY <1>1 DEF EncStr
  <2> QED BY <2>1, <2>2, <2>3 DEF Good
<1>2. CASE b[1] >= 128 /\ b[1] <= 183
  <2> DEFINE pl == b[1] - 128
  <2>1. h = Good(FALSE, 2, pl) /\ lim - 1 >= pl /\ (pl = 1 => b[2] >= 128)
    BY <1>0, <1>2 DEF Hdr, Bad, Good
  <2> DEFINE p == Slice(b, 2, pl)
  <2>2. Len(p) = pl /\ p \in Seq(Byte) /\ \A i \in 1..pl : p[i] = b[1 + i]
    BY <1>0, <1>2, <2>1 DEF Slice, Byte
  <2>2a. pl = 1 => (p[1] = b[2] /\ b[2] >= 128 /\ b[2] \in 0..255)
    BY <2>1, <2>2, <1>0
  <2>2b. pl \in 0..55
    BY <1>0, <1>2
  <2>3. ~(Len(p) = 1 /\ p[1] < 128) /\ Len(p) < 56
    BY <2>2, <2>2a, <2>2b
  <2>4. EncStr(p) = <<128 + pl>> \o p
    BY <2>2, <2>3 DEF EncStr, EncHdr
  <2>5. Slice(b, 1, 1 + pl) = <<128 + pl>> \o p
    BY <2>2, <1>0, <1>2, <2>1 DEF Slice
  <2> QED BY <2>1, <2>4, <2>5 DEF Good
<1>3. CASE b[1] >= 184 /\ b[1] <= 191
  <2>1. h = LongHdr(b, 1, lim, b[1] - 183, FALSE)
    BY <1>0, <1>3 DEF Hdr
  <2>2. b[1] - 183 \in {1, 2} /\ lim >= 2
    BY <2>1, <1>0, <1>3 DEF LongHdr, Bad
  <2>3. CASE b[1] = 184
    <3> DEFINE v == b[2]
    <3>1. h = Good(FALSE, 3, v) /\ v >= 56 /\ lim - 2 >= v /\ v \in 0..255
      BY <2>1, <2>2, <2>3, <1>0 DEF LongHdr, Bad, Good
    <3> DEFINE p == Slice(b, 3, v)
    <3>2. Len(p) = v /\ p \in Seq(Byte) /\ \A i \in 1..v : p[i] = b[2 + i]
      BY <1>0, <3>1 DEF Slice, Byte
    <3>3. EncStr(p) = <<184, v>> \o p
      BY <3>1, <3>2 DEF EncStr, EncHdr
    <3>4. Slice(b, 1, 2 + v) = <<184, v>> \o p
      BY <3>2, <1>0, <2>3, <3>1 DEF Slice
    <3> QED BY <3>1, <3>3, <3>4 DEF Good
  <2>4. CASE b[1] = 185
    <3> DEFINE v == (b[2] * 256) + b[3]
    <3>0. lim >= 3 /\ b[2] \in 1..255 /\ b[3] \in 0..255
      BY <2>1, <2>4, <1>0 DEF LongHdr, Bad
    <3>1. h = Good(FALSE, 4, v) /\ v >= 256 /\ lim - 3 >= v /\ v < 65536
      BY <2>1, <2>4, <3>0, <1>0 DEF LongHdr, Bad, Good
    <3> DEFINE p == Slice(b, 4, v)
    <3>2. Len(p) = v /\ p \in Seq(Byte) /\ \A i \in 1..v : p[i] = b[3 + i]
      BY <1>0, <3>1, <3>0 DEF Slice, Byte
    <3>3. v \div 256 = b[2] /\ v % 256 = b[3]
      BY <3>0
    <3>3a. EncHdr(FALSE, v) = <<185, b[2], b[3]>>
      BY <3>0, <3>1, <3>3 DEF EncHdr
    <3>3b. Len(p) # 1
      BY <3>1, <3>2
    <3>4. EncStr(p) = <<185, b[2], b[3]>> \o p
      BY <3>2, <3>3a, <3>3b DEF EncStr
    <3>5. Slice(b, 1, 3 + v) = <<185, b[2], b[3]>> \o p
      BY <3>2, <1>0, <2>4, <3>1, <3>0 DEF Slice
    <3> QED BY <3>1, <3>4, <3>5 DEF Good
  <2> QED BY <2>2, <2>3, <2>4, <1>0
<1>4. CASE b[1] >= 192
  <2>1. CASE b[1] <= 247
    BY <2>1, <1>4, <1>0 DEF Hdr, Good, Bad
  <2>2. CASE b[1] >= 248
    <3>1. h = LongHdr(b, 1, lim, b[1] - 247, TRUE)
      BY <1>0, <2>2 DEF Hdr
    <3> QED BY <3>1 DEF LongHdr, Good, Bad
  <2> QED BY <2>1, <2>2, <1>0
<1> QED BY <1>0, <1>1, <1>2, <1>3, <1>4

\* first-item locality: the outcome of a successful header read depends only on the bytes up to the bound it was
\* given; more bytes after it (any bytes) change nothing
THEOREM HdrIsLocal ==
  ASSUME NEW b \in Seq(Byte), NEW c \in Seq(Byte), NEW lim \in Nat, NEW lim2 \in Nat,
         lim <= Len(b), lim <= lim2, lim2 <= Len(c), \A i \in 1..lim : c[i] = b[i], Hdr(b, 1, lim).ok
  PROVE  Hdr(c, 1, lim2) = Hdr(b, 1, lim)
<1>0. lim >= 1 /\ b[1] \in 0..255 /\ c[1] = b[1] /\ \A i \in 1..Len(b) : b[i] \in 0..255
  BY DEF Hdr, Bad, Byte
<1>1. CASE b[1] < 128
  BY <1>0, <1>1 DEF Hdr
<1>2. CASE b[1] >= 128 /\ b[1] <= 183
  <2>1. lim - 1 >= b[1] - 128 /\ ~(b[1] - 128 = 1 /\ 2 > lim) /\ ~(b[1] - 128 = 1 /\ b[2] < 128)
    BY <1>0, <1>2 DEF Hdr, Bad, Good
  <2>2. b[1] - 128 = 1 => c[2] = b[2]
    BY <2>1, <1>0
  <2> QED BY <1>0, <1>2, <2>1, <2>2 DEF Hdr, Good
<1>3. CASE b[1] >= 184 /\ b[1] <= 191
  <2> DEFINE lol == b[1] - 183
  <2>1. Hdr(b, 1, lim) = LongHdr(b, 1, lim, lol, FALSE) /\ Hdr(c, 1, lim2) = LongHdr(c, 1, lim2, lol, FALSE)
    BY <1>0, <1>3 DEF Hdr
  <2>2. lol \in {1, 2} /\ lim - 1 >= lol /\ c[2] = b[2] /\ (lol = 2 => c[3] = b[3])
    BY <2>1, <1>0, <1>3 DEF LongHdr, Bad
  <2>3. b[2] \in 0..255 /\ (lol = 2 => b[3] \in 0..255)
    BY <2>2, <1>0
  <2> QED BY <2>1, <2>2, <2>3, <1>0 DEF LongHdr, Bad, Good
<1>4. CASE b[1] >= 192 /\ b[1] <= 247
  BY <1>0, <1>4 DEF Hdr, Bad, Good
<1>5. CASE b[1] >= 248
  <2> DEFINE lol == b[1] - 247
  <2>1. Hdr(b, 1, lim) = LongHdr(b, 1, lim, lol, TRUE) /\ Hdr(c, 1, lim2) = LongHdr(c, 1, lim2, lol, TRUE)
    BY <1>0, <1>5 DEF Hdr
  <2>2. lol \in {1, 2} /\ lim - 1 >= lol /\ c[2] = b[2] /\ (lol = 2 => c[3] = b[3])
    BY <2>1, <1>0, <1>5 DEF LongHdr, Bad
  <2>3. b[2] \in 0..255 /\ (lol = 2 => b[3] \in 0..255)
    BY <2>2, <1>0
  <2> QED BY <2>1, <2>2, <2>3, <1>0 DEF LongHdr, Bad, Good
<1> QED BY <1>0, <1>1, <1>2, <1>3, <1>4, <1>5
=============================================================================
