----------------------------- MODULE HexProofs -----------------------------
(* TLAPS-checked lemmas about Hex.tla, for byte sequences of every length.   *)
EXTENDS Hex, TLAPS

LEMMA DigitRoundTrip == \A v \in 0..15 : HexVal(HexDigit(v)) = v /\ HexVal(HexDigit(v)) # 16
  BY DEF HexVal, HexDigit

LEMMA DigitIsLowerHex == \A v \in 0..15 : HexDigit(v) \in (48..57) \cup (97..102)
  BY DEF HexDigit

LEMMA NibblesOfByte == \A x \in 0..255 : x \div 16 \in 0..15 /\ x % 16 \in 0..15 /\ ((x \div 16) * 16) + (x % 16) = x
  OBVIOUS

THEOREM HexRoundTrip ==
  ASSUME NEW b \in Seq(0..255)
  PROVE  HexDec(HexEnc(b), Len(b)) = [ok |-> TRUE, bytes |-> b]
<1> DEFINE n == Len(b)
<1> DEFINE cs == HexEnc(b)
<1>1. n \in Nat /\ \A p \in 1..n : b[p] \in 0..255
  OBVIOUS
<1>2. cs = [p \in 1..(2 * n) |-> LET x == b[(p + 1) \div 2] IN HexDigit(IF p % 2 = 1 THEN x \div 16 ELSE x % 16)]
  BY DEF HexEnc
<1>3. Len(cs) = 2 * n
  BY <1>1, <1>2
<1>4. \A p \in 1..n : cs[2 * p - 1] = HexDigit(b[p] \div 16) /\ cs[2 * p] = HexDigit(b[p] % 16)
  <2> TAKE p \in 1..n
  <2>1. 2 * p - 1 \in 1..(2 * n) /\ 2 * p \in 1..(2 * n)
    BY <1>1
  <2>2. ((2 * p - 1) + 1) \div 2 = p /\ (2 * p + 1) \div 2 = p /\ (2 * p - 1) % 2 = 1 /\ (2 * p) % 2 = 0
    BY <1>1
  <2> QED BY <1>2, <2>1, <2>2
<1>5. \A i \in 1..(2 * n) : HexVal(cs[i]) # 16
  <2> TAKE i \in 1..(2 * n)
  <2>1. PICK p \in 1..n : i = 2 * p - 1 \/ i = 2 * p
    <3>1. (i + 1) \div 2 \in 1..n /\ (i = 2 * ((i + 1) \div 2) - 1 \/ i = 2 * ((i + 1) \div 2))
      BY <1>1
    <3> QED BY <3>1
  <2>2. b[p] \div 16 \in 0..15 /\ b[p] % 16 \in 0..15
    BY <1>1, NibblesOfByte
  <2> QED BY <2>1, <2>2, <1>4, DigitRoundTrip
<1>6. \A p \in 1..n : HexVal(cs[2 * p - 1]) * 16 + HexVal(cs[2 * p]) = b[p]
  <2> TAKE p \in 1..n
  <2>1. b[p] \in 0..255
    BY <1>1
  <2>2. b[p] \div 16 \in 0..15 /\ b[p] % 16 \in 0..15 /\ ((b[p] \div 16) * 16) + (b[p] % 16) = b[p]
    BY <2>1, NibblesOfByte
  <2> QED BY <1>4, <2>2, DigitRoundTrip
<1>7. [p \in 1..n |-> HexVal(cs[2 * p - 1]) * 16 + HexVal(cs[2 * p])] = b
  BY <1>6, <1>1
<1>8. ~(Len(cs) # 2 * n \/ \E i \in 1..Len(cs) : HexVal(cs[i]) = 16)
  BY <1>3, <1>5
<1> QED BY <1>7, <1>8 DEF HexDec
=============================================================================
