---------------------------- MODULE NodeIdProofs ----------------------------
(* TLAPS-checked: the textual forms of a NodeId read back as the same id,      *)
(* for every 32-byte id (C16).                                                 *)
EXTENDS NodeId, HexProofs

LEMMA HexEncShape ==
  ASSUME NEW b \in Seq(0..255)
  PROVE  /\ HexEnc(b) \in Seq(Nat) /\ Len(HexEnc(b)) = 2 * Len(b)
         /\ \A p \in 1..(2 * Len(b)) : HexEnc(b)[p] \in (48..57) \cup (97..102)
<1>1. \A i \in 1..Len(b) : b[i] \in 0..255 /\ b[i] \div 16 \in 0..15 /\ b[i] % 16 \in 0..15
  OBVIOUS
<1>2. \A p \in 1..(2 * Len(b)) : (p + 1) \div 2 \in 1..Len(b)
  OBVIOUS
<1>3. \A p \in 1..(2 * Len(b)) : HexEnc(b)[p] = HexDigit(IF p % 2 = 1 THEN b[(p + 1) \div 2] \div 16 ELSE b[(p + 1) \div 2] % 16)
  BY DEF HexEnc
<1>4. \A p \in 1..(2 * Len(b)) : HexEnc(b)[p] \in (48..57) \cup (97..102)
  BY <1>1, <1>2, <1>3, DigitIsLowerHex
<1>5. HexEnc(b) = [p \in 1..(2 * Len(b)) |-> HexEnc(b)[p]] /\ Len(HexEnc(b)) = 2 * Len(b)
  BY DEF HexEnc
<1> QED BY <1>4, <1>5

THEOREM NodeIdTextRoundTrip ==
  ASSUME NEW id \in Seq(0..255), Len(id) = 32
  PROVE  /\ FromStr(HexEnc(id)) = [ok |-> TRUE, bytes |-> id]
         /\ FromStr(C_0x \o HexEnc(id)) = [ok |-> TRUE, bytes |-> id]
<1> DEFINE h == HexEnc(id)
<1>1. h \in Seq(Nat) /\ Len(h) = 64 /\ \A p \in 1..64 : h[p] \in (48..57) \cup (97..102)
  BY HexEncShape
<1>2. HexDec(h, 32) = [ok |-> TRUE, bytes |-> id]
  BY HexRoundTrip
<1>3. ~IsPrefixOf(C_0x, h)
  <2>1. h[2] # 120
    BY <1>1
  <2> QED BY <2>1, <1>1 DEF IsPrefixOf, C_0x
<1>4. FromStr(h) = HexDec(h, 32)
  BY <1>3 DEF FromStr
<1> DEFINE t == C_0x \o h
<1>5. IsPrefixOf(C_0x, t) /\ Len(t) = 66
  BY <1>1 DEF IsPrefixOf, C_0x
<1>6. SubSeq(t, 3, Len(t)) = h
  BY <1>1, <1>5 DEF C_0x
<1>7. FromStr(t) = HexDec(h, 32)
  BY <1>5, <1>6 DEF FromStr
<1> QED BY <1>2, <1>4, <1>7
=============================================================================
