--------------------------------- MODULE Hex ---------------------------------
(* Lower-case hex rendering and strict hex parsing over character codes.     *)
EXTENDS BytesCore

HexDigit(v) == IF v < 10 THEN 48 + v ELSE 87 + v          \* 0-9 a-f
HexVal(c) ==
  IF c >= 48 /\ c <= 57 THEN c - 48
  ELSE IF c >= 97 /\ c <= 102 THEN c - 87
  ELSE IF c >= 65 /\ c <= 70 THEN c - 55
  ELSE 16                                                    \* not a hex digit

HexEnc(b) == [p \in 1..(2 * Len(b)) |->
                LET x == b[(p + 1) \div 2] IN HexDigit(IF p % 2 = 1 THEN x \div 16 ELSE x % 16)]

\* exactly 2n hex digits (either case) -> n bytes
HexDec(cs, n) ==
  IF Len(cs) # 2 * n \/ \E i \in 1..Len(cs) : HexVal(cs[i]) = 16
  THEN [ok |-> FALSE, bytes |-> <<>>]
  ELSE [ok |-> TRUE, bytes |-> [p \in 1..n |-> HexVal(cs[2 * p - 1]) * 16 + HexVal(cs[2 * p])]]

=============================================================================
