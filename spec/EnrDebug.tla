------------------------------ MODULE EnrDebug ------------------------------
(* Beyond the listed properties: the `{:?}` rendering of a record, as a function of *)
(* its observable state.  Specified when every string that is shown is printable    *)
(* ASCII without quote / backslash and no IPv6 socket is present (the textual form  *)
(* of IPv6 addresses is left out of this specification).                            *)
EXTENDS EnrTyped, Hex


\* decimal digits of a small natural (ports, octets)
RECURSIVE DecNat(_)
DecNat(n) == IF n < 10 THEN <<48 + n>> ELSE DecNat(n \div 10) \o <<48 + (n % 10)>>

\* one step of long division of a big-endian byte string by 10: [q, r]
RECURSIVE Div10(_, _, _)
Div10(b, i, acc) ==   \* acc = [q |-> bytes so far, r |-> remainder]
  IF i > Len(b) THEN acc
  ELSE LET cur == acc.r * 256 + b[i] IN Div10(b, i + 1, [q |-> Append(acc.q, cur \div 10), r |-> cur % 10])

StripZ(b) == LET nz == {i \in 1..Len(b) : b[i] # 0} IN
             IF nz = {} THEN <<>> ELSE SubSeq(b, CHOOSE i \in nz : \A j \in nz : i <= j, Len(b))

\* decimal rendering of a u64 given as minimal big-endian bytes
RECURSIVE DecBE(_)
DecBE(b) ==
  IF b = <<>> THEN <<48>>
  ELSE LET d == Div10(b, 1, [q |-> <<>>, r |-> 0])  q == StripZ(d.q) IN
       IF q = <<>> THEN <<48 + d.r>> ELSE DecBE(q) \o <<48 + d.r>>

Printable(s) == \A i \in 1..Len(s) : s[i] >= 32 /\ s[i] <= 126 /\ s[i] # 34 /\ s[i] # 92
Quote(s) == <<34>> \o s \o <<34>>

NoneS == <<78, 111, 110, 101>>                                   \* None
SomeS(x) == <<83, 111, 109, 101, 40>> \o x \o <<41>>             \* Some(x)
Sep == <<44, 32>>                                                \* ", "

Ip4S(ip) == DecNat(ip[1]) \o <<46>> \o DecNat(ip[2]) \o <<46>> \o DecNat(ip[3]) \o <<46>> \o DecNat(ip[4])
Sock4S(s) == IF s = <<>> THEN NoneS ELSE SomeS(Ip4S(s[1].ip) \o <<58>> \o DecNat(s[1].port))

Shown == {K_id, K_ip, K_ip6, K_udp, K_udp6, K_tcp, K_tcp6}
Others(ps) == SelectSeq(ps, LAMBDA p : p[1] \notin Shown)

RECURSIVE PairsS(_)
PairsS(ps) ==
  IF ps = <<>> THEN <<>>
  ELSE <<40>> \o Quote(Head(ps)[1]) \o Sep \o Quote(HexEnc(Head(ps)[2])) \o <<41>>
       \o (IF Len(ps) > 1 THEN Sep ELSE <<>>) \o PairsS(Tail(ps))

\* the rendering is specified for this record
DebugSpecified(c) ==
  /\ Udp6Sock(c.pairs) = <<>> /\ Tcp6Sock(c.pairs) = <<>>
  /\ \A i \in 1..Len(c.pairs) : c.pairs[i][1] \in Shown \/ Printable(c.pairs[i][1])
  /\ (IdOf(c.pairs) # <<>> => Printable(IdOf(c.pairs)[1]))

\* "Enr { id: ", ", seq: ", ... as character codes
L_open  == <<69,110,114,32,123,32,105,100,58,32>>
L_seq   == <<44,32,115,101,113,58,32>>
L_nid   == <<44,32,78,111,100,101,73,100,58,32>>
L_sig   == <<44,32,115,105,103,110,97,116,117,114,101,58,32>>
L_u4    == <<44,32,73,112,86,52,32,85,68,80,32,83,111,99,107,101,116,58,32>>
L_u6    == <<44,32,73,112,86,54,32,85,68,80,32,83,111,99,107,101,116,58,32>>
L_t4    == <<44,32,73,112,86,52,32,84,67,80,32,83,111,99,107,101,116,58,32>>
L_t6    == <<44,32,73,112,86,54,32,84,67,80,32,83,111,99,107,101,116,58,32>>
L_other == <<44,32,79,116,104,101,114,32,80,97,105,114,115,58,32>>
L_close == <<44,32,46,46,32,125>>

DebugOfRec(c) ==
  LET idv == IdOf(c.pairs) IN
  L_open \o (IF idv = <<>> THEN NoneS ELSE SomeS(Quote(idv[1])))
  \o L_seq \o DecBE(c.seq)
  \o L_nid \o C_0x \o HexEnc(c.nid)
  \o L_sig \o Quote(HexEnc(c.sig))
  \o L_u4 \o Sock4S(Udp4Sock(c.pairs))
  \o L_u6 \o NoneS
  \o L_t4 \o Sock4S(Tcp4Sock(c.pairs))
  \o L_t6 \o NoneS
  \o L_other \o <<91>> \o PairsS(Others(c.pairs)) \o <<93>>
  \o L_close

=============================================================================
