-------------------------------- MODULE MC_Text -------------------------------
(* C12, bounded-exhaustive: the strict base64 reader is the inverse of the writer  *)
(* and is INJECTIVE -- on every byte string up to MaxBytes bytes over a boundary   *)
(* alphabet, and on every character string up to MaxChars characters over an       *)
(* alphabet that contains padding, the standard alphabet's + and /, whitespace     *)
(* and characters whose low bits are non-zero: a string parses iff it is exactly   *)
(* the writer's output for the bytes it yields. Hence one text per record (plus    *)
(* the optional prefix) and nothing else.                                          *)
EXTENDS Base64Url, TLC

CONSTANTS MaxBytes, MaxChars
VARIABLES mode, b, cs
vars == <<mode, b, cs>>

ByteAlpha == {0, 1, 127, 128, 255, 254}
CharAlpha == {65, 66, 81, 103, 119, 56, 45, 95, 61, 43, 47, 32, 10}    \* A B Q g w 8 - _ = + / space \n

Init == \/ mode = "bytes" /\ b = <<>> /\ cs = <<>>
        \/ mode = "chars" /\ b = <<>> /\ cs = <<>>

Next == \/ /\ mode = "bytes" /\ Len(b) < MaxBytes /\ \E x \in ByteAlpha : b' = Append(b, x) /\ UNCHANGED <<mode, cs>>
        \/ /\ mode = "chars" /\ Len(cs) < MaxChars /\ \E c \in CharAlpha : cs' = Append(cs, c) /\ UNCHANGED <<mode, b>>

Spec == Init /\ [][Next]_vars

RoundTrip == mode = "bytes" =>
  LET t == B64Enc(b)  d == B64Dec(t) IN
  /\ d.ok /\ d.bytes = b
  /\ Len(t) = 4 * (Len(b) \div 3) + (IF Len(b) % 3 = 0 THEN 0 ELSE (Len(b) % 3) + 1)
  \* the text form: prefix + body parses to the same bytes with and without the prefix
  /\ Len(b) >= 3 => (ParseText(TextOf(b)).bytes = b /\ ParseText(B64Enc(b)).bytes = b)

Injective == mode = "chars" =>
  LET d == B64Dec(cs) IN
  /\ d.ok => B64Enc(d.bytes) = cs                       \* accepted strings are canonical
  /\ (\E i \in 1..Len(cs) : cs[i] \in {61, 43, 47, 32, 10}) => ~d.ok   \* padding, std alphabet, whitespace
  /\ Len(cs) % 4 = 1 => ~d.ok
=============================================================================
