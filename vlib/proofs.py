"""./check proofs -- re-checks the TLAPS proofs of spec/proofs/*.tla (lemmas about the specification itself, for
byte strings of every length; they say nothing about the code and are not part of any property check's verdict).
The proof modules EXTEND the non-recursive core modules of the specification (BytesCore, RlpHdr, Hex): tlapm cannot
load RECURSIVE definitions, which is why the specification is split that way."""
import os, re, shutil, subprocess, sys, glob, time
from . import run

EXPECTED = {"HexProofs": ["DigitRoundTrip", "HexRoundTrip"],
            "RlpProofs": ["HdrOfEncStr", "HdrShape", "AcceptedStringIsCanonical", "HdrIsLocal"],
            "RlpProofsAt": ["HdrIsLocalAt", "AcceptedStringIsCanonicalAt", "HdrOfEncStrAt"],
            "NodeIdProofs": ["HexEncShape", "NodeIdTextRoundTrip"]}


def main(timeout=1500):
    wd = run.workdir("proofs-%d" % os.getpid())
    for f in glob.glob(os.path.join(run.SPEC, "*.tla")) + glob.glob(os.path.join(run.SPEC, "proofs", "*.tla")):
        if "_TTrace_" not in f and not os.path.basename(f).startswith("MC_") and os.path.basename(f) != "Trace.tla":
            shutil.copy(f, wd)
    rc = 0
    for mod, thms in sorted(EXPECTED.items()):
        src = open(os.path.join(wd, mod + ".tla")).read()
        missing = [t for t in thms if not re.search(r"(THEOREM|LEMMA)\s+%s\s*==" % t, src)]
        if missing:
            print("proofs: %s lacks %s" % (mod, missing))
            rc = 2
            continue
        t = time.time()
        try:
            p = subprocess.run(["timeout", "-s", "KILL", str(timeout), "tlapm", "--threads", "8", mod + ".tla"], cwd=wd,
                               stdout=subprocess.PIPE, stderr=subprocess.STDOUT, text=True)
            out = p.stdout
        except Exception as e:  # tlapm missing
            out = str(e)
        m = re.search(r"All (\d+) obligations? proved", out)
        if m:
            print("proofs: %-10s all %s obligations proved (%s) in %ds" % (mod, m.group(1), ", ".join(thms), time.time() - t))
        else:
            bad = re.findall(r"(\d+)/(\d+) obligations failed", out)
            print("proofs: %-10s NOT proved %s" % (mod, bad or out[-400:]))
            rc = 2
    if rc == 0:
        shutil.rmtree(wd, ignore_errors=True)
    return rc
