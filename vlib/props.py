"""Per-property checks: which drivers and bounded models decide which property, verdict collection,
known findings, evidence, replay."""
import json, os, random, re, subprocess, sys, time, hashlib, shutil
from . import run, gen
from .run import log, ToolError

ROOT = run.ROOT
EVID = os.path.join(ROOT, "evidence")
REPLAYS = os.path.join(ROOT, "replays")
KNOWN = os.path.join(ROOT, "known_findings.json")


def load_keys(seed=1):
    """the fixed test keys plus a seed-determined pool of further signers (random secrets of both schemes and the
    small scalars whose public keys have unusual x coordinates), so that key-dependent behaviour is exercised"""
    p = subprocess.run([run.ENRH, "keys"], stdout=subprocess.PIPE, text=True)
    if p.returncode != 0:
        raise ToolError("enrh keys failed")
    k = json.loads(p.stdout)
    rng = random.Random(seed * 7919 + 13)
    extra = ["k:%064x" % rng.randrange(1, 2 ** 255) for _ in range(6)] + ["e:%064x" % rng.randrange(0, 2 ** 256) for _ in range(3)]
    extra += ["k:" + h for h in k.get("special_x", {}).values()]
    p = subprocess.run([run.ENRH, "keys"] + extra, stdout=subprocess.PIPE, text=True)
    if p.returncode != 0:
        raise ToolError("enrh keys failed")
    k = json.loads(p.stdout)
    gen.set_keys(k)
    gen.set_pool([n for n in extra if n in k])
    return k


def static_check_names(pid):
    """names of the checks Trace.tla has for a property (Chk("Cxx", "name" ...); names built with \\o are prefixes)"""
    src = open(os.path.join(run.SPEC, "Trace.tla")).read()
    return sorted(set(re.findall(r'Chk\("%s",\s*"([^"]+)"' % pid, src)))


def sany_all():
    for m in sorted(os.listdir(run.SPEC)):
        if m.endswith(".tla") and "_TTrace_" not in m:
            p = subprocess.run(["tla-sany", m], cwd=run.SPEC, stdout=subprocess.PIPE, stderr=subprocess.STDOUT, text=True)
            if p.returncode != 0 or "rror" in p.stdout.replace("Semantic errors", ""):
                if "*** Errors" in p.stdout or "Fatal" in p.stdout or p.returncode != 0:
                    sys.stderr.write(p.stdout[-3000:])
                    raise ToolError("SANY failed on " + m)


# ----------------------------------------------------------------------------------------------
# driver registry: name -> function(rng, tier) -> list of scripts
# ----------------------------------------------------------------------------------------------
def T(tier, q, t):
    return q if tier == "quick" else t


ALLPORTS = list(range(65536))
BPORTS = [0, 1, 2, 126, 127, 128, 129, 254, 255, 256, 257, 511, 512, 1000, 30303, 32767, 32768, 65279, 65280, 65534, 65535]

DRIVERS = {
    # independently signed records and every tamper (bit flips, deletions, truncations, field-level)
    "auth": lambda rng, tier: gen.gen_auth(rng, T(tier, 16, 160), sweep_stride=T(tier, 2, 1)),
    "auth_light": lambda rng, tier: gen.gen_auth(rng, T(tier, 4, 30), sweep_stride=T(tier, 8, 3)),
    "valid": lambda rng, tier: gen.gen_valid(rng, T(tier, 120, 1500), full_every=T(tier, 3, 3)),
    "struct": lambda rng, tier: gen.gen_struct(rng, T(tier, 80, 800)),
    "struct_light": lambda rng, tier: gen.gen_struct(rng, T(tier, 10, 100)),
    "prefix": lambda rng, tier: gen.gen_prefix(rng, T(tier, 60, 500)),
    "text": lambda rng, tier: gen.gen_text(rng, T(tier, 60, 500)) + gen.gen_text_stale(rng, T(tier, 60, 600)),
    "hist": lambda rng, tier: gen.gen_hist(rng, T(tier, 160, 2400), length=T(tier, (8, 30), (10, 60))),
    "hist_long": lambda rng, tier: gen.gen_hist(rng, T(tier, 8, 64), length=T(tier, (150, 200), (300, 400)), full_every=25),
    "hist_full": lambda rng, tier: gen.gen_hist(rng, T(tier, 48, 600), full_every=1),
    "seq": lambda rng, tier: gen.gen_seq(rng, calls_per=T(tier, 8, None)),
    "size": lambda rng, tier: gen.gen_size(rng, per_size=T(tier, 3, 24)) + gen.gen_size_exact(rng, per_kt=T(tier, 260, None)),
    "size_full": lambda rng, tier: gen.gen_size(rng, per_size=T(tier, 2, 12), obs="full") + gen.gen_size_exact(rng, per_kt=T(tier, 120, 600), obs="full"),
    "typed_q": lambda rng, tier: gen.gen_typed(rng, ALLPORTS, routes=("setter",), keys=["tcp"]) if tier == "quick"
    else gen.gen_typed(rng, ALLPORTS),
    "typed_b": lambda rng, tier: gen.gen_typed(rng, BPORTS, kts=("k256", "libsecp", "ed", "comb"), extra=T(tier, 30, 300)),
    "eq": lambda rng, tier: gen.gen_eq(rng, T(tier, 80, 800)) + gen.gen_eq_fault(rng, T(tier, 40, 400)),
    "cross": lambda rng, tier: gen.gen_cross(rng, T(tier, 40, 400)),
    "nid": lambda rng, tier: gen.gen_nid(rng, T(tier, 30, 300)),
    "nodeid": lambda rng, tier: gen.gen_nodeid(rng, T(tier, 40, 2000)),
    "keys": lambda rng, tier: gen.gen_keys(rng, T(tier, 60, 3000)),
    "api": lambda rng, tier: gen.gen_api(rng, T(tier, 24, 400)),
    "huge": lambda rng, tier: gen.gen_huge(rng),
    # failing updates, systematically: quick runs take one sixth of the matrix (which sixth depends on the seed)
    "fail": lambda rng, tier: gen.gen_fail(rng, part=T(tier, (rng.randrange(6), 6), None)),
}

# property -> drivers, bounded models
CHECKS = {
    "C01": {"drivers": ["auth", "valid", "api"], "models": ["gen_secp"]},
    "C02": {"drivers": ["struct", "valid"], "models": ["gen_secp", "gen_ed", "rlp"]},
    "C03": {"drivers": ["hist_full", "auth_light", "struct", "text", "prefix", "typed_b", "nodeid", "keys", "api", "huge"], "models": ["hist_k256", "gen_ed"]},
    "C04": {"drivers": ["valid", "struct", "hist_full", "size_full", "auth_light", "fail"], "models": ["gen_secp", "rlp"]},
    "C05": {"drivers": ["hist", "hist_long", "size", "fail", "struct_light"], "models": ["hist_k256", "hist_ed", "hist_comb_secp", "hist_comb_ed", "build_ed"], "models_thorough": ["hist_sim"]},
    "C06": {"drivers": ["hist", "size", "seq", "fail"], "models": ["hist_k256", "hist_comb_secp"]},
    "C07": {"drivers": ["seq", "hist"], "models": ["hist_k256"]},
    "C08": {"drivers": ["hist", "hist_long", "seq", "size", "fail"], "models": ["hist_k256", "build_k256"]},
    "C09": {"drivers": ["size", "hist", "struct"], "models": ["hist_k256", "build_k256"]},
    "C10": {"drivers": ["nid", "valid", "hist", "cross", "api", "fail"], "models": ["hist_ed"]},
    "C11": {"drivers": ["cross", "struct", "auth_light", "valid", "api", "nid"], "models": ["gen_secp", "gen_ed", "hist_comb_ed"]},
    "C12": {"drivers": ["text", "hist_full", "size_full"], "models": ["text"]},
    "C13": {"drivers": ["prefix", "valid", "api"], "models": ["stream"]},
    "C14": {"drivers": ["typed_q", "typed_b", "hist_full"], "models": ["typed"]},
    "C15": {"drivers": ["eq", "hist", "fail", "size_full"], "models": ["hist_k256"]},
    "C16": {"drivers": ["nodeid"], "models": ["nodeid"]},
    "C17": {"drivers": ["keys", "api"], "models": ["key"]},
}


# ----------------------------------------------------------------------------------------------
def load_known():
    if not os.path.exists(KNOWN):
        return []
    return json.load(open(KNOWN)).get("findings", [])


def event_at(trace_file, l, cache={}):
    if trace_file not in cache:
        if len(cache) > 4:
            cache.clear()
        with open(trace_file) as f:
            cache[trace_file] = f.readlines()
    return json.loads(cache[trace_file][l - 1])


def script_of(script_file, sid):
    with open(script_file) as f:
        for line in f:
            s = json.loads(line)
            if str(s.get("sid")) == str(sid):
                return s
    return None


def pred_comb_ed_sig_with_valid_secp_entry(ev):
    """the event's record is an ed25519-signed CombinedKey record that also carries a valid secp256k1 key"""
    if not str(ev.get("kt", "")).endswith("comb"):
        return False
    f = ev.get("facts") or {}
    try:
        return bool(f["secp"]["present"] and f["secp"]["valid"] and f["ed"]["present"] and f["ed"]["sm"] and not f["secp"]["sm"])
    except Exception:
        return False


PREDS = {"comb_ed_sig_with_valid_secp_entry": pred_comb_ed_sig_with_valid_secp_entry}


def matches(kf, prop, chk, ev):
    if prop not in kf.get("properties", [kf.get("property")]):
        return False
    if "pred" in kf and not PREDS[kf["pred"]](ev):
        return False
    if "checks" in kf and not any(chk.startswith(c) for c in kf["checks"]):
        return False
    if "check" in kf and not chk.startswith(kf["check"]):
        return False
    if "t" in kf and ev.get("t") != kf["t"]:
        return False
    if "m" in kf and ev.get("m") != kf["m"]:
        return False
    if "tag" in kf and not str(ev.get("tag", "")).startswith(kf["tag"]):
        return False
    return True


def summarize_event(ev):
    s = {k: ev.get(k) for k in ("t", "sid", "i", "j", "h", "kt", "kts", "m", "args", "signer", "fault", "tag", "kind", "scheme") if k in ev}
    if "out" in ev:
        s["out"] = ev["out"]
    if "res" in ev:
        s["res"] = ev["res"]
    if "input" in ev:
        s["input_hex"] = bytes(ev["input"]).hex()
    if "text" in ev:
        s["text"] = "".join(chr(c) for c in ev["text"])[:600]
    if "bytes" in ev and isinstance(ev["bytes"], list):
        s["bytes_hex"] = bytes(ev["bytes"]).hex()
    return s


def run_check(pid, tier, seed, keep=False):
    t0 = time.time()
    os.makedirs(EVID, exist_ok=True)
    os.makedirs(REPLAYS, exist_ok=True)
    evid_path = os.path.join(EVID, pid + ".json")
    if os.path.exists(evid_path):
        os.remove(evid_path)
    run.build_harness()
    load_keys(seed)
    spec = CHECKS[pid]
    wd = run.workdir("%s-%s-%d" % (pid, tier, os.getpid()))
    rng = random.Random((seed * 1000003) ^ int(hashlib.sha256(pid.encode()).hexdigest()[:8], 16))
    scripts = []
    per_driver = {}
    for d in spec["drivers"]:
        s = DRIVERS[d](rng, tier)
        per_driver[d] = len(s)
        scripts.extend(s)
    log("%s/%s: %d scripts from drivers %s" % (pid, tier, len(scripts), per_driver))
    # model runs (bounded exhaustive TLC) -- may contribute further scripts (spec -> impl)
    model_stats = []
    from . import mc
    deep = {"hist_k256": "hist_k256_deep", "hist_ed": "hist_ed_deep", "gen_secp": "gen_secp_deep", "gen_ed": "gen_ed_deep"}
    mnames = list(spec.get("models", []))
    if tier == "thorough":
        mnames += [deep[m] for m in spec.get("models", []) if m in deep] + list(spec.get("models_thorough", []))
    for mname in mnames:
        ms = mc.MODELS[mname](tier, wd, seed)
        model_stats.append(ms["stats"])
        scripts.extend(ms.get("scripts", []))
        if not ms["stats"]["ok"]:
            raise ToolError("bounded model %s failed:\n%s" % (mname, ms["stats"].get("tail", "")))
    files, hangs = run.exec_scripts(scripts, wd, est=est_events)
    nev, bads = run.validate_traces(files, wd)
    log("%s/%s: %d events validated by TLC in %d chunks, %d events with failed checks" % (pid, tier, nev, len(files), len(bads)))
    known = load_known()
    viol, known_hits, tool, others = {}, {}, [], {}
    for b in bads:
        ev = None
        for f in b["fails"]:
            p, c = f["p"], f["c"]
            if p == "TOOL":
                tool.append((b, c))
                continue
            if p != pid:
                others[(p, c)] = others.get((p, c), 0) + 1
                continue
            if ev is None:
                ev = event_at(b["trace_file"], b["l"])
            kf = next((k for k in known if matches(k, p, c, ev)), None)
            if kf:
                known_hits.setdefault(kf.get("id", kf.get("what", "?")), [kf, 0])[1] += 1
            else:
                viol.setdefault((p, c), []).append((b, ev))
    for kind, sfile, script in hangs:
        # a step that did not terminate, or that brought the process down (abort, stack overflow): C03, reported by every check
        name = "call_did_not_terminate" if kind == "hang" else "call_aborted_the_process"
        viol.setdefault(("C03", name), []).append(({"sid": "?", "l": 0, "script_file": sfile, "trace_file": "", "fails": [], "script": script}, {"t": kind}))
    if tool:
        b, c = tool[0]
        ev = event_at(b["trace_file"], b["l"])
        rp = os.path.join(REPLAYS, "%s-toolerror-%d.json" % (pid, seed))
        json.dump({"tool_error": c, "event": summarize_event(ev), "script": script_of(b["script_file"], b["sid"])}, open(rp, "w"))
        raise ToolError("oracle/specification mismatch (%s) at %s event %s; details in %s" % (c, b["sid"], b["i"], rp))
    # evidence
    cov = coverage(files, pid)
    nviol = 0
    lines = []
    for (p, c), lst in sorted(viol.items()):
        if p == "C03" and pid != "C03" and c == "call_did_not_terminate":
            pass
        b, ev = lst[0]
        rp = os.path.join(REPLAYS, "%s-%s-s%d-%s.json" % (p, tier, seed, hashlib.sha256(c.encode()).hexdigest()[:8]))
        json.dump({"property": p, "check": c, "occurrences": len(lst), "tier": tier, "seed": seed,
                   "event": summarize_event(ev), "failed_checks": b.get("fails"),
                   "script": script_of(b["script_file"], b["sid"]) if b.get("sid") != "?" else b.get("script")}, open(rp, "w"), indent=1)
        lines.append("VIOLATION property=%s replay=%s  (%s; %d occurrence(s))" % (p, rp, c, len(lst)))
        nviol += len(lst)
    for kid, (kf, n) in sorted(known_hits.items()):
        print("KNOWN-FINDING: property=%s %s (%d occurrence(s) this run)" % (pid, kf.get("what", kid), n))
    extra = {k: v for k, v in others.items() if k[0].startswith("X")}
    for (p, c), n in sorted(extra.items()):
        # checks of the specification beyond the listed properties (e.g. the Debug rendering): reported, never fatal
        print("NOTE beyond-properties check failed: %s/%s (%d occurrence(s))" % (p, c, n))
    others = {k: v for k, v in others.items() if not k[0].startswith("X")}
    if others:
        log("checks of other properties that failed on these traces (reported by their own checks): %s"
            % ", ".join("%s/%s x%d" % (p, c, n) for (p, c), n in sorted(others.items())[:12]))
    own_counts = {k.split("/", 1)[1]: v for k, v in sorted(run.CHECK_COUNTS.items()) if k.startswith(pid + "/")}
    never = [n for n in static_check_names(pid) if not any(k == n or k.startswith(n) for k in own_counts)]
    st = {"states": sum(m["states"] for m in model_stats) + nev + 1, "transitions": sum(m["transitions"] for m in model_stats) + nev}
    evid = {
        "property_id": pid, "tier": tier, "seed": seed, "level": "model_checking",
        "coverage": dict(cov, **{
            "states": st["states"], "transitions": st["transitions"],
            "traces_validated_against_impl": len(scripts),
            "events_validated": nev,
            "bounded_models": [{k: m[k] for k in ("name", "states", "transitions", "wall_s", "constants") if k in m} for m in model_stats],
            "drivers": per_driver,
            # vacuity accounting: in how many of the validated events TLC evaluated each check of this property, and
            # which checks the trace specification has for it that this run never reached
            "checks_evaluated": own_counts,
            "checks_never_evaluated": never,
            "checker_cmd": "tlc -workers 1 -config Trace.cfg Trace.tla (TRACE=<chunk>); bounded models: tlc -config MC_*.cfg",
            "trusted_base": ["TLC 1.8.0 + CommunityModules Json/IOUtils", "harness recorder (copies public API results)",
                             "k256 / libsecp256k1 / ed25519-dalek as mathematics", "own keccak-f (self-checked on EIP-778 vector)"],
            "exhaustive": False,
        }),
        "assumptions": ["perfect cryptography (no signature valid for two contents, no keccak collision)",
                        "oracle facts PkValid/SigMath/Nid computed by independent back-ends"],
        "wall_s": round(time.time() - t0, 1),
        "violations": nviol,
    }
    json.dump(evid, open(evid_path, "w"), indent=1)
    if not keep:   # the replay files carry everything needed to reproduce a violation; trace chunks are large
        shutil.rmtree(wd, ignore_errors=True)
    for ln in lines:
        print(ln)
    if lines:
        return 1
    print("OK property=%s tier=%s seed=%d events=%d scripts=%d wall=%.0fs" % (pid, tier, seed, nev, len(scripts), time.time() - t0))
    return 0


def est_events(s):
    n = 0
    for st in s["steps"]:
        if st.get("op") == "decode_sweep":
            n += 400 // max(1, st.get("stride", 1)) + 50
        else:
            n += 1
    return max(1, n)


def coverage(files, pid):
    """count what the traces contain: evaluations = events; distinct_nontrivial = distinct
    (event type, method/tag, outcome) classes with a non-trivial outcome mix"""
    classes = {}
    samples = []
    n = 0
    for sf, tf in files:
        with open(tf) as f:
            for line in f:
                n += 1
                # cheap parse: only the head fields matter; full json.loads is needed for correctness
                ev = json.loads(line)
                if ev["t"] in ("decode", "from_str", "from_json"):
                    oc = ",".join(r["kind"] for r in ev["res"])
                    key = (ev["t"], ev.get("tag", ""), oc)
                elif ev["t"] in ("call", "build"):
                    key = (ev["t"], ev.get("m", "build"), ev["kt"], ev["out"]["kind"], ev["out"]["err"])
                elif ev["t"] == "nodeid":
                    key = (ev["t"], ev["kind"], ev["ok"], len(ev.get("bytes", ev.get("text", []))))
                elif ev["t"] == "keyimport":
                    key = (ev["t"], ev["scheme"], ev["ok"], len(ev["bytes"]))
                else:
                    key = (ev["t"], ev.get("tag", ""))
                classes[key] = classes.get(key, 0) + 1
                if len(samples) < 3 and n % 97 == 1:
                    samples.append(summarize_sample(ev))
    if not samples and n:
        with open(files[0][1]) as f:
            samples.append(summarize_sample(json.loads(f.readline())))
    return {"evaluations": n, "distinct_nontrivial": len(classes),
            "rule": "one evaluation = one recorded library call / decode validated against the specification by TLC; "
                    "distinct_nontrivial = number of distinct (event type, method or mutation class, key type, outcome) classes observed",
            "samples": samples}


def summarize_sample(ev):
    s = summarize_event(ev)
    s.pop("args", None) if len(json.dumps(s.get("args", ""))) > 400 else None
    if "input_hex" in s:
        s["input_hex"] = s["input_hex"][:200]
    return s


def replay(path):
    r = json.load(open(path))
    if not r.get("script"):
        print("replay file has no script", file=sys.stderr)
        return 2
    run.build_harness()
    load_keys()
    wd = run.workdir("replay-%d" % os.getpid())
    files, hangs = run.exec_scripts([r["script"]], wd)
    nev, bads = run.validate_traces([f for f in files if os.path.exists(f[1]) and os.path.getsize(f[1]) > 0], wd) if not hangs else (0, [])
    hit = False
    for b in bads:
        for f in b["fails"]:
            print("failed check: property=%s check=%s at step %s" % (f["p"], f["c"], b["i"]))
            if f["p"] == r.get("property"):
                hit = True
    if hangs:
        print("a step did not terminate or aborted the process")
        hit = True
    if hit:
        print("VIOLATION property=%s replay=%s" % (r.get("property"), path))
        return 1
    print("replay: no violation of %s on the current tree (%d events)" % (r.get("property"), nev))
    return 0


def selftest():
    from . import selftest as st
    return st.main()
