"""Plumbing: build the harness against /repo's working tree, execute scripts, validate traces with TLC,
run bounded TLC models, collect verdicts."""
import json, threading, os, re, shutil, subprocess, sys, time, concurrent.futures as cf

ROOT = os.path.dirname(os.path.dirname(os.path.abspath(__file__)))
SPEC = os.path.join(ROOT, "spec")
HARNESS = os.path.join(ROOT, "harness")
ENRH = os.path.join(HARNESS, "target", "release", "enrh")
WORK = os.path.join(ROOT, "work")
NCPU = os.cpu_count() or 4
TLA_CP = "/opt/veriftools/tla/tla2tools.jar:/opt/veriftools/tla/CommunityModules-deps.jar"
# exit statuses that mean "the code under test brought the process down" (abort, segfault, bus error, illegal instruction,
# Rust's panic-abort status); anything else non-zero (e.g. SIGKILL by the OOM killer) is a tool error
CRASH_CODES = (-6, -11, -7, -4, 134, 139, 135, 132, 101)


class ToolError(Exception):
    pass


def log(*a):
    print("[check]", *a, file=sys.stderr, flush=True)


def build_harness():
    """(Re)build the harness against the current /repo working tree, hooks enabled (cfg enr_verif)."""
    lock_src = os.path.join(os.environ.get("VERIF_REPO", "/repo"), "Cargo.lock")   # VERIF_REPO: development only
    lock_dst = os.path.join(HARNESS, "Cargo.lock")
    if not os.path.exists(lock_dst) and os.path.exists(lock_src):
        shutil.copy(lock_src, lock_dst)
    t = time.time()
    env = dict(os.environ, CARGO_NET_OFFLINE="true")
    p = subprocess.run(["cargo", "build", "--release", "--offline", "--quiet"], cwd=HARNESS, env=env,
                       stdout=subprocess.PIPE, stderr=subprocess.STDOUT, text=True)
    if p.returncode != 0:
        sys.stderr.write(p.stdout[-6000:])
        raise ToolError("harness build failed (does /repo still compile with --cfg enr_verif?)")
    log("harness built in %.1fs" % (time.time() - t))


def workdir(name):
    d = os.path.join(WORK, name)
    shutil.rmtree(d, ignore_errors=True)
    os.makedirs(d)
    return d


def exec_scripts(scripts, outdir, chunk_events=3000, est=None):
    """Write scripts into chunk files, run the harness on each, return list of (scripts_file, trace_file).
    Chunks are balanced by the estimated number of events (est(script))."""
    est = est or (lambda s: max(1, len(s["steps"])))
    chunks, cur, n = [], [], 0
    for s in scripts:
        e = est(s)
        if cur and n + e > chunk_events:
            chunks.append(cur)
            cur, n = [], 0
        cur.append(s)
        n += e
    if cur:
        chunks.append(cur)
    files = []
    for i, ch in enumerate(chunks):
        sf = os.path.join(outdir, "s%04d.ndjson" % i)
        tf = os.path.join(outdir, "t%04d.ndjson" % i)
        with open(sf, "w") as f:
            for s in ch:
                f.write(json.dumps(s, separators=(",", ":")) + "\n")
        files.append((sf, tf))

    def run(pair):
        sf, tf = pair
        p = subprocess.run([ENRH, "exec", sf, tf], stdout=subprocess.PIPE, stderr=subprocess.PIPE, text=True)
        return pair, p.returncode, p.stderr[-2000:]

    hangs = []
    with cf.ThreadPoolExecutor(max_workers=NCPU) as ex:
        results = list(ex.map(run, files))
    out_files = []
    for pair, rc, err in results:
        if rc == 3:
            hangs.append(("hang", pair[0], None))
            out_files.append(pair)
        elif rc in CRASH_CODES:
            # the library brought the process down (abort / stack overflow / segfault): that is data, not a tool
            # error. Re-run the chunk one script per process to find the culprit(s) and keep the traces of the rest.
            sf, tf = pair
            scripts_in = [json.loads(l) for l in open(sf) if l.strip()]
            good = []
            for k, s in enumerate(scripts_in):
                s1 = "%s.one%d" % (sf, k)
                t1 = "%s.one%d" % (tf, k)
                with open(s1, "w") as f:
                    f.write(json.dumps(s, separators=(",", ":")) + "\n")
                p = subprocess.run([ENRH, "exec", s1, t1], stdout=subprocess.PIPE, stderr=subprocess.PIPE, text=True)
                if p.returncode == 0:
                    good.append(t1)
                elif p.returncode == 3:
                    hangs.append(("hang", s1, s))
                elif p.returncode in CRASH_CODES:
                    hangs.append(("crash", s1, s))
                else:
                    raise ToolError("harness failed on %s: %s" % (s1, p.stderr[-2000:]))
            with open(tf, "w") as f:
                for t1 in good:
                    f.write(open(t1).read())
            out_files.append(pair)
        elif rc != 0:
            raise ToolError("harness failed on %s: %s" % (pair[0], err))
        else:
            out_files.append(pair)
    return out_files, hangs


# name of a check ("Cxx/name") -> number of events in which TLC evaluated it (accumulated over all chunks of a run)
CHECK_COUNTS = {}
COUNTS_LOCK = threading.Lock()

BAD_RE = re.compile(r'^"BAD (.*)"$')
DONE_RE = re.compile(r'^"DONE (\d+) of (\d+)"$')
COUNTS_RE = re.compile(r'^"COUNTS (.*)"$')


def tlc_trace(trace_file, metadir, timeout=1800):
    """Validate one trace chunk. Returns (n_events, bad list); per-check evaluation counts go to CHECK_COUNTS."""
    env = dict(os.environ, TRACE=trace_file)
    env.pop("JAVA_TOOL_OPTIONS", None)
    # java is invoked directly (same class path as the `tlc` wrapper) so that many single-worker JVMs scale:
    # serial GC, two JIT threads, moderate stacks
    cmd = ["timeout", str(timeout), "java", "-XX:+UseSerialGC", "-Xss64m", "-Xmx3g", "-XX:CICompilerCount=2",
           "-cp", TLA_CP, "tlc2.TLC", "-workers", "1", "-metadir", metadir, "-cleanup", "-noGenerateSpecTE",
           "-config", "Trace.cfg", "Trace.tla"]
    p = subprocess.run(cmd, cwd=SPEC, env=env, stdout=subprocess.PIPE, stderr=subprocess.STDOUT, text=True)
    bad, done = [], None
    for line in p.stdout.splitlines():
        m = BAD_RE.match(line)
        if m:
            bad.append(json.loads(json.loads('"' + m.group(1) + '"')))
            continue
        m = DONE_RE.match(line)
        if m:
            done = (int(m.group(1)), int(m.group(2)))
            continue
        m = COUNTS_RE.match(line)
        if m:
            try:
                for k, v in json.loads(json.loads('"' + m.group(1) + '"')).items():
                    with COUNTS_LOCK:
                        CHECK_COUNTS[k] = CHECK_COUNTS.get(k, 0) + int(v)
            except Exception:
                pass
    shutil.rmtree(metadir, ignore_errors=True)
    if done is None or done[0] != done[1] or "Model checking completed. No error has been found." not in p.stdout:
        tail = "\n".join(p.stdout.splitlines()[-40:])
        raise ToolError("TLC trace validation did not complete for %s (rc=%s):\n%s" % (trace_file, p.returncode, tail))
    return done[0], bad


def validate_traces(files, outdir, jobs=None):
    jobs = jobs or max(2, min(12, NCPU - 2))
    total, bads = 0, []
    with cf.ThreadPoolExecutor(max_workers=jobs) as ex:
        futs = {}
        for i, (sf, tf) in enumerate(files):
            futs[ex.submit(tlc_trace, tf, os.path.join(outdir, "meta%04d" % i))] = (sf, tf)
        for fu in cf.as_completed(futs):
            n, bad = fu.result()
            total += n
            for b in bad:
                b["trace_file"] = futs[fu][1]
                b["script_file"] = futs[fu][0]
            bads.extend(bad)
    return total, bads


SUMMARY_RE = re.compile(r"(\d+) states generated, (\d+) distinct states found, (\d+) states left on queue")


def tlc_model(cfg, tla, metadir, workers=8, timeout=1800, extra_env=None, capture_prefixes=(), extra_args=()):
    """Run a bounded model exhaustively. Returns dict(states, transitions, ok, out_lines)."""
    env = dict(os.environ, JAVA_TOOL_OPTIONS="-Xss256m -Xmx16g -XX:ParallelGCThreads=4")
    if extra_env:
        env.update(extra_env)
    cmd = ["timeout", str(timeout), "tlc", "-workers", str(workers), "-metadir", metadir, "-cleanup",
           "-noGenerateSpecTE", "-config", cfg] + list(extra_args) + [tla]
    t = time.time()
    p = subprocess.run(cmd, cwd=SPEC, env=env, stdout=subprocess.PIPE, stderr=subprocess.STDOUT, text=True)
    shutil.rmtree(metadir, ignore_errors=True)
    out = p.stdout
    m = SUMMARY_RE.search(out)
    res = {"ok": "Model checking completed. No error has been found." in out, "rc": p.returncode,
           "transitions": int(m.group(1)) if m else 0, "states": int(m.group(2)) if m else 0,
           "wall_s": time.time() - t, "captured": [], "out": out}
    for line in out.splitlines():
        for pref in capture_prefixes:
            if line.startswith('"' + pref):
                res["captured"].append(json.loads(line))
    return res
