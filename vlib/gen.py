"""Script generators (drivers only -- they choose inputs and calls, they never judge)."""
import random

B = lambda s: list(s.encode() if isinstance(s, str) else s)

KT_ALL = ["k256", "libsecp", "ed", "comb"]
KT_SECP = ["k256", "libsecp", "comb"]
SECP_SIGNERS = ["k1", "k2", "k3"]
ED_SIGNERS = ["e1", "e2"]
RESERVED = ["id", "ip", "ip6", "tcp", "tcp6", "udp", "udp6", "secp256k1", "ed25519"]
PORT_KEYS = ["tcp", "tcp6", "udp", "udp6"]

# public keys of the fixed test keys, filled in by set_keys() from `enrh keys`
KEYS = {}


def set_keys(k):
    KEYS.clear()
    KEYS.update(k)


def scheme_of(signer):
    return "secp" if signer.startswith("k") else "ed"


def pk_key(signer):
    return "secp256k1" if scheme_of(signer) == "secp" else "ed25519"


def signers_for(kt):
    base = kt.lstrip("w") if kt.startswith("w") else kt
    if base in ("k256", "libsecp", "var"):
        return SECP_SIGNERS
    if base == "ed":
        return ED_SIGNERS
    return SECP_SIGNERS + ED_SIGNERS


# ---------------------------------------------------------------- RLP (for producing raw values only)
def be(n):
    out = []
    while n:
        out.insert(0, n & 255)
        n >>= 8
    return out


def enc_hdr(is_list, n):
    base = 0xC0 if is_list else 0x80
    if n < 56:
        return [base + n]
    l = be(n)
    return [base + 55 + len(l)] + l


def enc_str(s):
    s = list(s)
    if len(s) == 1 and s[0] < 0x80:
        return s
    return enc_hdr(False, len(s)) + s


def enc_list(items):
    p = [b for it in items for b in it]
    return enc_hdr(True, len(p)) + p


def enc_uint(n):
    return enc_str(be(n))


def rand_bytes(rng, n):
    return [rng.randrange(256) for _ in range(n)]


def rand_value_raw(rng, depth=0):
    """a random well-formed RLP item (string or nested list)"""
    r = rng.random()
    if r < 0.65 or depth >= 2:
        n = rng.choice([0, 1, 1, 2, 3, 4, 8, 16, 20, 32, 33, 55, 56, 57, 60])
        s = rand_bytes(rng, n)
        if n == 1 and rng.random() < 0.5:
            s = [rng.choice([0, 1, 0x7f, 0x80, 0xff])]
        return enc_str(s)
    return enc_list([rand_value_raw(rng, depth + 1) for _ in range(rng.randrange(0, 4))])


SEQ_BOUNDARY = [[], [1], [127], [128], [255], [1, 0], [255, 255], [1, 0, 0], [255] * 4, [1, 0, 0, 0, 0],
                [255] * 7, [255] * 8, [255] * 7 + [254], [1] + [0] * 7]


def rand_seq(rng):
    if rng.random() < 0.5:
        return list(rng.choice(SEQ_BOUNDARY))
    n = rng.randrange(0, 9)
    s = rand_bytes(rng, n)
    while s and s[0] == 0:
        s = s[1:]
    return s


CUSTOM_KEYS = ["", "a", "b", "eth2", "attnets", "client", "zz", "k", "opstack", "quic", "\xff", "secp256k0", "idx", "tcp5", "udp7"]


def rand_custom_key(rng):
    if rng.random() < 0.8:
        k = rng.choice(CUSTOM_KEYS)
        return list(k.encode("latin-1"))
    return rand_bytes(rng, rng.randrange(1, 6))


def port_raw(rng):
    return enc_uint(rng.choice([0, 1, 127, 128, 255, 256, 30303, 65535, rng.randrange(65536)]))


def client_raw(rng):
    n = rng.choice([2, 3])
    return enc_list([enc_str(B(rng.choice(["Nethermind", "geth", "x", "", "lighthouse-v5.1.3"]))) for _ in range(n)])


def rand_pairs(rng, signer, extra_reserved=True, max_custom=3, budget=150):
    """content pairs of a valid record (sorted, typed), including id and the signer's public key"""
    d = {}
    d[tuple(B("id"))] = enc_str(B("v4"))
    d[tuple(B(pk_key(signer)))] = enc_str(KEYS[signer]["pk"])
    if extra_reserved:
        if rng.random() < 0.6:
            d[tuple(B("ip"))] = enc_str(rand_bytes(rng, 4))
        if rng.random() < 0.3:
            d[tuple(B("ip6"))] = enc_str(rand_bytes(rng, 16))
        for k in PORT_KEYS:
            if rng.random() < 0.4:
                d[tuple(B(k))] = port_raw(rng)
    for _ in range(rng.randrange(0, max_custom + 1)):
        k = tuple(rand_custom_key(rng))
        if k in d or bytes(k).decode("latin-1") in RESERVED:
            continue
        if bytes(k) == b"client" and rng.random() < 0.7:
            v = client_raw(rng)
        else:
            v = rand_value_raw(rng)
        if len(v) > budget:
            continue
        budget -= len(v) + len(k) + 1
        d[k] = v
    return [[list(k), d[k]] for k in sorted(d)]


def rec_len(seq, pairs, siglen=64):
    p = len(enc_str([1] * siglen)) + len(enc_str(seq)) + sum(len(enc_str(k)) + len(v) for k, v in pairs)
    return len(enc_hdr(True, p)) + p


def pad_to(rng, seq, pairs, target, key="zpad"):
    """add a filler pair so that the encoded record has exactly `target` bytes (if possible)"""
    cur = rec_len(seq, pairs)
    kb = B(key)
    for n in range(0, 300):
        v = enc_str([0xAA] * n)
        trial = sorted(pairs + [[kb, v]], key=lambda p: bytes(p[0]))
        if rec_len(seq, trial) == target:
            return trial
    return None


def rand_record(rng, signer=None, scheme=None):
    if signer is None:
        scheme = scheme or rng.choice(["secp", "secp", "ed"])
        signer = rng.choice(SECP_SIGNERS if scheme == "secp" else ED_SIGNERS)
    seq = rand_seq(rng)
    pairs = rand_pairs(rng, signer)
    while rec_len(seq, pairs) > 300:
        pairs = rand_pairs(rng, signer, max_custom=1)
    return {"seq": seq, "pairs": pairs, "by": signer}


def recspec(rec, **kw):
    r = {"seq": rec["seq"], "pairs": rec["pairs"], "sig": dict({"by": rec["by"]}, **kw.pop("sig", {}))}
    r.update(kw)
    return {"rec": r}


def items_of(rec):
    """flat item list [seq, k1, v1, ...] as ITEM specs (values verbatim)"""
    it = [{"s": rec["seq"]}]
    for k, v in rec["pairs"]:
        it.append({"s": k})
        it.append({"x": v})
    return it


class Sid:
    def __init__(self, prefix):
        self.p, self.n = prefix, 0

    def __call__(self):
        self.n += 1
        return "%s-%d" % (self.p, self.n)


# ---------------------------------------------------------------- C01 / C11: authenticity drivers
def gen_auth(rng, n_records, sweep_stride=1, kts=KT_ALL):
    """independently signed records and every kind of tamper"""
    sid = Sid("auth")
    out = []
    for r in range(n_records):
        rec = rand_record(rng)
        other = rand_record(rng, signer=rec["by"])
        base = recspec(rec)
        steps = [{"op": "decode", "kts": kts, "input": base, "tag": "valid"}]
        # every single-bit flip, deletion, duplication, truncation
        off = rng.randrange(sweep_stride)
        for sw in ["bitflips", "truncs", "dels", "dups"]:
            steps.append({"op": "decode_sweep", "kts": kts, "base": base, "sweep": sw,
                          "stride": sweep_stride if sw == "bitflips" else max(1, sweep_stride // 4),
                          "offset": off if sw == "bitflips" else 0, "tag": sw})
        sch = scheme_of(rec["by"])
        wrong = [s for s in (SECP_SIGNERS if sch == "secp" else ED_SIGNERS) if s != rec["by"]]
        # field-level tampers
        tam = []
        tam.append(("wrong_key", recspec(rec, sig={"by": rng.choice(wrong)})))
        tam.append(("sig_of_other_record", {"rec": {"seq": rec["seq"], "pairs": rec["pairs"],
                                                    "sig": {"by": rec["by"], "over": items_of(other)}}}))
        seq2 = list(rec["seq"])
        seq2 = (seq2[:-1] + [(seq2[-1] + 1) % 256]) if seq2 else [1]
        if seq2 and seq2[0] == 0:
            seq2 = [1]
        tam.append(("signed_other_seq", {"rec": {"seq": rec["seq"], "pairs": rec["pairs"],
                                                 "sig": {"by": rec["by"], "over": items_of(dict(rec, seq=seq2))}}}))
        if len(rec["pairs"]) > 2:
            j = rng.randrange(len(rec["pairs"]))
            p2 = [list(p) for p in rec["pairs"]]
            if bytes(p2[j][0]) not in (b"id", b"secp256k1", b"ed25519", b"ip", b"ip6", b"tcp", b"udp", b"tcp6", b"udp6"):
                p2[j][1] = enc_str(rand_bytes(rng, 5))
                tam.append(("signed_other_value", {"rec": {"seq": rec["seq"], "pairs": rec["pairs"],
                                                           "sig": {"by": rec["by"], "over": items_of(dict(rec, pairs=p2))}}}))
            p3 = [p for i, p in enumerate(rec["pairs"]) if i != j or bytes(p[0]) in (b"id", b"secp256k1", b"ed25519")]
            if len(p3) != len(rec["pairs"]):
                tam.append(("signed_without_a_pair", {"rec": {"seq": rec["seq"], "pairs": rec["pairs"],
                                                              "sig": {"by": rec["by"], "over": items_of(dict(rec, pairs=p3))}}}))
        # public key swapped for another valid key of the scheme while the signature stays
        p4 = [[k, (enc_str(KEYS[wrong[0]]["pk"]) if bytes(k) == pk_key(rec["by"]).encode() else v)] for k, v in rec["pairs"]]
        tam.append(("pk_swapped", {"rec": {"seq": rec["seq"], "pairs": p4,
                                           "sig": {"by": rec["by"], "over": items_of(rec)}}}))
        for n in [0, 1, 32, 63, 65, 96]:
            tam.append(("siglen_%d" % n, recspec(rec, sig={"len": n})))
        tam.append(("sig_as_list", recspec(rec, sig={"as": "l"})))
        if sch == "secp":
            for tw in ["highs", "zero_r", "zero_s", "r_n", "s_n"]:
                tam.append((tw, recspec(rec, sig={"tweak": tw})))
        tam.append(("random_sig", recspec(rec, sig={"raw": rand_bytes(rng, 64)})))
        for tag, spec in tam:
            steps.append({"op": "decode", "kts": kts, "input": spec, "tag": tag})
        # byte edits
        for _ in range(12):
            steps.append({"op": "decode", "kts": kts, "tag": "edit",
                          "input": {"mut": {"base": base, "edits": [
                              {"k": rng.choice(["set", "ins"]), "i": rng.randrange(300), "b": rng.randrange(256)}]}}})
        out.append({"sid": sid(), "steps": steps})
    # unstructured bytes
    steps = []
    for _ in range(max(20, n_records * 4)):
        n = rng.choice([0, 1, 2, 3, 10, 50, 100, 200, 300, 301, 400])
        b = rand_bytes(rng, n)
        if b and rng.random() < 0.5:
            b[0] = rng.choice([0xf8, 0xf9, 0xc0, 0xc1, 0xf7, 0xb8, 0x80, 0xff])
        steps.append({"op": "decode", "kts": kts, "input": {"raw": b}, "tag": "random"})
    out.append({"sid": sid(), "steps": steps})
    return out
