"""Script generators (drivers only -- they choose inputs and calls, they never judge)."""
import random

B = lambda s: list(s.encode() if isinstance(s, str) else s)

KT_ALL = ["k256", "libsecp", "ed", "comb"]
KT_SECP = ["k256", "libsecp", "comb"]
SECP_SIGNERS = ["k1", "k2", "k3", "k4"]      # k4: even y (compressed tag 02), the others odd
ED_SIGNERS = ["e1", "e2"]
RESERVED = ["id", "ip", "ip6", "tcp", "tcp6", "udp", "udp6", "secp256k1", "ed25519"]
PORT_KEYS = ["tcp", "tcp6", "udp", "udp6"]

# public keys of the fixed test keys, filled in by set_keys() from `enrh keys`
KEYS = {}


def set_keys(k):
    KEYS.clear()
    KEYS.update(k)


BASE_SECP = ["k1", "k2", "k3", "k4"]
BASE_ED = ["e1", "e2"]


def set_pool(names):
    """extend the signer pools with further (seed-determined) keys; the first entries stay the fixed test keys"""
    SECP_SIGNERS[:] = BASE_SECP + [n for n in names if n.startswith("k:")]
    ED_SIGNERS[:] = BASE_ED + [n for n in names if n.startswith("e:")]


def scheme_of(signer):
    return "secp" if signer.startswith("k") else "ed"


def pk_key(signer):
    return "secp256k1" if scheme_of(signer) == "secp" else "ed25519"


def signers_for(kt):
    base = kt.lstrip("w") if kt.startswith("w") else kt
    if base in ("k256", "libsecp", "var"):
        return SECP_SIGNERS
    if base == "ed":
        return ED_SIGNERS
    return SECP_SIGNERS + ED_SIGNERS


# ---------------------------------------------------------------- RLP (for producing raw values only)
def be(n):
    out = []
    while n:
        out.insert(0, n & 255)
        n >>= 8
    return out


def enc_hdr(is_list, n):
    base = 0xC0 if is_list else 0x80
    if n < 56:
        return [base + n]
    l = be(n)
    return [base + 55 + len(l)] + l


def enc_str(s):
    s = list(s)
    if len(s) == 1 and s[0] < 0x80:
        return s
    return enc_hdr(False, len(s)) + s


def enc_list(items):
    p = [b for it in items for b in it]
    return enc_hdr(True, len(p)) + p


def enc_uint(n):
    return enc_str(be(n))


def rand_bytes(rng, n):
    return [rng.randrange(256) for _ in range(n)]


def rand_ip(rng, n):
    """addresses incl. the special forms an implementation might treat differently"""
    if n == 4:
        r = rng.random()
        if r < 0.6:
            return rand_bytes(rng, 4)
        return list(rng.choice([[0, 0, 0, 0], [255] * 4, [127, 0, 0, 1], [10, 0, 0, 1], [224, 0, 0, 1], [169, 254, 1, 1], [192, 168, 0, 1]]))
    r = rng.random()
    if r < 0.4:
        return rand_bytes(rng, 16)
    v4 = rand_bytes(rng, 4)
    return list(rng.choice([
        [0] * 10 + [255, 255] + v4,            # IPv4-mapped  ::ffff:a.b.c.d
        [0] * 12 + v4,                         # IPv4-compatible ::a.b.c.d
        [0] * 16, [0] * 15 + [1],              # unspecified, loopback
        [0xfe, 0x80] + [0] * 6 + rand_bytes(rng, 8),   # link local
        [0xff, 2] + [0] * 13 + [1],            # multicast
        [0, 0x64, 0xff, 0x9b] + [0] * 8 + v4,  # NAT64
        [0x20, 1, 0xd, 0xb8] + rand_bytes(rng, 12),
        [0] * 10 + [255, 255, 127, 0, 0, 1],
    ]))


def rand_value_raw(rng, depth=0):
    """a random well-formed RLP item (string or nested list)"""
    r = rng.random()
    if r < 0.12 and depth < 2:
        # a byte string whose payload is itself the encoding of an item (must stay an opaque string)
        inner = rand_value_raw(rng, depth + 1)
        if rng.random() < 0.3:
            inner = enc_str([rng.randrange(1, 256)] + rand_bytes(rng, 7))      # 9-byte payload holding an 8-byte string
        return enc_str(inner)
    if r < 0.65 or depth >= 2:
        n = rng.choice([0, 1, 1, 2, 3, 4, 8, 16, 20, 32, 33, 55, 56, 57, 60])
        s = rand_bytes(rng, n)
        if n == 1 and rng.random() < 0.5:
            s = [rng.choice([0, 1, 0x7f, 0x80, 0xff])]
        return enc_str(s)
    return enc_list([rand_value_raw(rng, depth + 1) for _ in range(rng.randrange(0, 4))])


SEQ_BOUNDARY = [[], [1], [127], [128], [255], [1, 0], [255, 255], [1, 0, 0], [255] * 4, [1, 0, 0, 0, 0],
                [255] * 7, [255] * 8, [255] * 7 + [254], [1] + [0] * 7]


def rand_seq(rng):
    if rng.random() < 0.5:
        return list(rng.choice(SEQ_BOUNDARY))
    n = rng.randrange(0, 9)
    s = rand_bytes(rng, n)
    while s and s[0] == 0:
        s = s[1:]
    return s


CUSTOM_KEYS = ["", "a", "b", "eth2", "attnets", "client", "client", "zz", "k", "opstack", "quic", "\xff", "secp256k0", "idx", "tcp5", "udp7"]


def rand_custom_key(rng):
    if rng.random() < 0.06:
        # keys around the short/long RLP header boundary
        return [0x6b] * rng.choice([55, 56, 57, 60])
    if rng.random() < 0.8:
        k = rng.choice(CUSTOM_KEYS)
        return list(k.encode("latin-1"))
    return rand_bytes(rng, rng.randrange(1, 6))


def port_raw(rng):
    return enc_uint(rng.choice([0, 1, 127, 128, 255, 256, 30303, 65535, rng.randrange(65536)]))


def client_raw(rng):
    n = rng.choice([2, 3, 2, 3, 0, 1, 4])
    names = [B("Nethermind"), B("geth"), B("x"), [], B("lighthouse-v5.1.3"), [0x47, 0xe9, 0x74, 0x68], [0xff, 0xfe], [0xde, 0xad, 0xbe, 0xef], [0xc3, 0x28]]
    l = enc_list([enc_str(rng.choice(names)) for _ in range(n)])
    if rng.random() < 0.1:
        return enc_str(l)          # the list wrapped in a byte string: not a client entry
    return l


def rand_pairs(rng, signer, extra_reserved=True, max_custom=3, budget=150):
    """content pairs of a valid record (sorted, typed), including id and the signer's public key"""
    d = {}
    d[tuple(B("id"))] = enc_str(B("v4"))
    d[tuple(B(pk_key(signer)))] = enc_str(KEYS[signer]["pk"])
    if extra_reserved:
        if rng.random() < 0.6:
            d[tuple(B("ip"))] = enc_str(rand_ip(rng, 4))
        if rng.random() < 0.3:
            d[tuple(B("ip6"))] = enc_str(rand_ip(rng, 16))
        for k in PORT_KEYS:
            if rng.random() < 0.4:
                d[tuple(B(k))] = port_raw(rng)
    for _ in range(rng.randrange(0, max_custom + 1)):
        k = tuple(rand_custom_key(rng))
        if k in d or bytes(k).decode("latin-1") in RESERVED:
            continue
        if bytes(k) == b"client" and rng.random() < 0.7:
            v = client_raw(rng)
        else:
            v = rand_value_raw(rng)
        if len(v) > budget:
            continue
        budget -= len(v) + len(k) + 1
        d[k] = v
    return [[list(k), d[k]] for k in sorted(d)]


def rec_len(seq, pairs, siglen=64):
    p = len(enc_str([1] * siglen)) + len(enc_str(seq)) + sum(len(enc_str(k)) + len(v) for k, v in pairs)
    return len(enc_hdr(True, p)) + p


def pad_to(rng, seq, pairs, target, key="zpad"):
    """add a filler pair so that the encoded record has exactly `target` bytes (if possible)"""
    cur = rec_len(seq, pairs)
    kb = B(key)
    for n in range(0, 300):
        v = enc_str([0xAA] * n)
        trial = sorted(pairs + [[kb, v]], key=lambda p: bytes(p[0]))
        if rec_len(seq, trial) == target:
            return trial
    return None


def rand_record(rng, signer=None, scheme=None):
    if signer is None:
        scheme = scheme or rng.choice(["secp", "secp", "ed"])
        signer = rng.choice(SECP_SIGNERS if scheme == "secp" else ED_SIGNERS)
    seq = rand_seq(rng)
    if rng.random() < 0.12:
        # the smallest possible records: id and the public key only, short sequence number
        seq = rng.choice([[], [1], [127], [128], [255, 255]])
        return {"seq": seq, "pairs": rand_pairs(rng, signer, extra_reserved=False, max_custom=0), "by": signer}
    pairs = rand_pairs(rng, signer)
    while rec_len(seq, pairs) > 300:
        pairs = rand_pairs(rng, signer, max_custom=1)
    return {"seq": seq, "pairs": pairs, "by": signer}


def recspec(rec, **kw):
    r = {"seq": rec["seq"], "pairs": rec["pairs"], "sig": dict({"by": rec["by"]}, **kw.pop("sig", {}))}
    r.update(kw)
    return {"rec": r}


def items_of(rec):
    """flat item list [seq, k1, v1, ...] as ITEM specs (values verbatim)"""
    it = [{"s": rec["seq"]}]
    for k, v in rec["pairs"]:
        it.append({"s": k})
        it.append({"x": v})
    return it


class Sid:
    def __init__(self, prefix):
        self.p, self.n = prefix, 0

    def __call__(self):
        self.n += 1
        return "%s-%d" % (self.p, self.n)


# ---------------------------------------------------------------- C01 / C11: authenticity drivers
def gen_auth(rng, n_records, sweep_stride=1, kts=KT_ALL):
    """independently signed records and every kind of tamper"""
    sid = Sid("auth")
    out = []
    for r in range(n_records):
        rec = rand_record(rng, scheme="ed" if r % 3 == 2 else "secp")     # both schemes in every run
        if r % 5 == 1:
            rec["seq"] = []                                                 # sequence number 0: its encoding is the single byte 80
        if r % 3 == 0 and not any(bytes(k) == b"e0" for k, _ in rec["pairs"]) and rec_len(rec["seq"], rec["pairs"]) < 290:
            rec["pairs"] = sorted(rec["pairs"] + [[B("e0"), [0x80]]], key=lambda p: bytes(p[0]))   # an empty value under a custom key
        other = rand_record(rng, signer=rec["by"])
        base = recspec(rec)
        steps = [{"op": "decode", "kts": kts, "input": base, "tag": "valid"}]
        # every single-bit flip, deletion, duplication, truncation
        off = rng.randrange(sweep_stride)
        for sw in ["bitflips", "truncs", "dels", "dups"]:
            steps.append({"op": "decode_sweep", "kts": kts, "base": base, "sweep": sw,
                          "stride": sweep_stride if sw == "bitflips" else max(1, sweep_stride // 4),
                          "offset": off if sw == "bitflips" else 0, "tag": sw})
        sch = scheme_of(rec["by"])
        wrong = [s for s in (SECP_SIGNERS if sch == "secp" else ED_SIGNERS) if s != rec["by"]]
        # field-level tampers
        tam = []
        tam.append(("wrong_key", recspec(rec, sig={"by": rng.choice(wrong)})))
        tam.append(("sig_of_other_record", {"rec": {"seq": rec["seq"], "pairs": rec["pairs"],
                                                    "sig": {"by": rec["by"], "over": items_of(other)}}}))
        seq2 = list(rec["seq"])
        seq2 = (seq2[:-1] + [(seq2[-1] + 1) % 256]) if seq2 else [1]
        if seq2 and seq2[0] == 0:
            seq2 = [1]
        tam.append(("signed_other_seq", {"rec": {"seq": rec["seq"], "pairs": rec["pairs"],
                                                 "sig": {"by": rec["by"], "over": items_of(dict(rec, seq=seq2))}}}))
        if len(rec["pairs"]) > 2:
            j = rng.randrange(len(rec["pairs"]))
            p2 = [list(p) for p in rec["pairs"]]
            if bytes(p2[j][0]) not in (b"id", b"secp256k1", b"ed25519", b"ip", b"ip6", b"tcp", b"udp", b"tcp6", b"udp6"):
                p2[j][1] = enc_str(rand_bytes(rng, 5))
                tam.append(("signed_other_value", {"rec": {"seq": rec["seq"], "pairs": rec["pairs"],
                                                           "sig": {"by": rec["by"], "over": items_of(dict(rec, pairs=p2))}}}))
            p3 = [p for i, p in enumerate(rec["pairs"]) if i != j or bytes(p[0]) in (b"id", b"secp256k1", b"ed25519")]
            if len(p3) != len(rec["pairs"]):
                tam.append(("signed_without_a_pair", {"rec": {"seq": rec["seq"], "pairs": rec["pairs"],
                                                              "sig": {"by": rec["by"], "over": items_of(dict(rec, pairs=p3))}}}))
        # public key swapped for another valid key of the scheme while the signature stays
        p4 = [[k, (enc_str(KEYS[wrong[0]]["pk"]) if bytes(k) == pk_key(rec["by"]).encode() else v)] for k, v in rec["pairs"]]
        tam.append(("pk_swapped", {"rec": {"seq": rec["seq"], "pairs": p4,
                                           "sig": {"by": rec["by"], "over": items_of(rec)}}}))
        # pairs added to / duplicated in the encoding while the signature still covers the original content
        orig = items_of(rec)
        j = rng.randrange(len(rec["pairs"]))
        kj = rec["pairs"][j][0]
        junk = enc_str(rand_bytes(rng, 4)) if bytes(kj) != b"ip" else enc_str(rand_bytes(rng, 4))
        if bytes(kj) in (b"tcp", b"tcp6", b"udp", b"udp6"):
            junk = enc_uint(rng.randrange(65536))
        elif bytes(kj) == b"ip6":
            junk = enc_str(rand_bytes(rng, 16))
        elif bytes(kj) == b"id":
            junk = enc_str(B("v4"))
        elif bytes(kj) in (b"secp256k1", b"ed25519"):
            junk = enc_str(KEYS[wrong[0]]["pk"])
        dup_before = rec["pairs"][:j] + [[kj, junk]] + rec["pairs"][j:]
        dup_after = rec["pairs"][:j + 1] + [[kj, junk]] + rec["pairs"][j + 1:]
        extra = sorted(rec["pairs"] + [[B("zzextra"), enc_str([1, 2, 3])]], key=lambda p: bytes(p[0]))
        for tag, ps in [("unsigned_duplicate_before", dup_before), ("unsigned_duplicate_after", dup_after), ("unsigned_extra_pair", extra)]:
            tam.append((tag, {"rec": {"seq": rec["seq"], "pairs": ps, "sig": {"by": rec["by"], "over": orig}}}))
        noid = [p for p in rec["pairs"] if bytes(p[0]) != b"id"]
        tam.append(("id_missing_resigned", {"rec": {"seq": rec["seq"], "pairs": noid, "sig": {"by": rec["by"]}}}))
        for jj, (kk, vv) in enumerate(rec["pairs"]):
            if vv == [0x80] and bytes(kk) not in (b"tcp", b"tcp6", b"udp", b"udp6"):
                flipped = [list(p) for p in rec["pairs"]]
                flipped[jj] = [kk, [0xc0]]
                tam.append(("empty_string_to_empty_list_unsigned", {"rec": {"seq": rec["seq"], "pairs": flipped, "sig": {"by": rec["by"], "over": orig}}}))
        for n in [0, 1, 32, 63, 65, 66, 96, 128]:
            tam.append(("siglen_%d" % n, recspec(rec, sig={"len": n})))
        tam.append(("sig_as_list", recspec(rec, sig={"as": "l"})))
        tam.append(("sig_list_header", recspec(rec, sig={"as": "lh"})))
        if sch == "secp":
            for tw in ["highs", "zero_r", "zero_s", "r_n", "s_n"]:
                tam.append((tw, recspec(rec, sig={"tweak": tw})))
            tam.append(("sig_der", recspec(rec, sig={"der": True})))
            tam.append(("sig_der_highs", recspec(rec, sig={"tweak": "highs", "der": True})))
        tam.append(("random_sig", recspec(rec, sig={"raw": rand_bytes(rng, 64)})))
        # a value replaced by one a lenient reader might treat as the same (the identity scheme in another case), not re-signed
        idalt = [[k, (enc_str(B("V4")) if bytes(k) == b"id" else v)] for k, v in rec["pairs"]]
        tam.append(("id_case_flipped_unsigned", {"rec": {"seq": rec["seq"], "pairs": idalt, "sig": {"by": rec["by"], "over": items_of(rec)}}}))
        # the signature made over the same items under another framing of the list (long-form / two-byte / string header, no header)
        for fr in ("long", "long2", "str", "bare"):
            tam.append(("signed_over_other_framing_" + fr, recspec(rec, sig={"frame": fr})))
        # signatures that HAVE a zero byte at the start of r / of s / at the end (found by counting a filler pair up
        # until the genuine signature has it): valid as they are; with that byte dropped, or with a zero byte added
        # in front or behind, they are 63 / 65 bytes and not signatures
        if r % 2 == 0 and rec_len(rec["seq"], rec["pairs"]) < 285:
            for pos in (0, 32, 63):
                g = {"seq": rec["seq"], "pairs": rec["pairs"], "grind": {"pos": pos, "byte": 0}}
                steps.append({"op": "decode", "kts": kts, "input": {"rec": dict(g, sig={"by": rec["by"]})}, "tag": "valid"})
                tam.append(("sig_zero_byte_dropped_%d" % pos, {"rec": dict(g, sig={"by": rec["by"], "drop": pos})}))
                tam.append(("sig_zero_byte_dropped_repadded_%d" % pos, {"rec": dict(g, sig={"by": rec["by"], "drop": pos, "rpad" if pos == 0 else "lpad": 1})}))
            tam.append(("sig_left_padded", recspec(rec, sig={"lpad": 1})))
            tam.append(("sig_right_padded", recspec(rec, sig={"rpad": 1})))
        if rec["seq"] == []:
            it0 = items_of(rec)
            tam.append(("seq_zero_written_as_00", {"rec": {"items": [{"x": [0]}] + it0[1:], "sig": {"by": rec["by"], "over": it0}}}))
        for tag, spec in tam:
            steps.append({"op": "decode", "kts": kts, "input": spec, "tag": tag})
        # the same tampers through the text and JSON entry points
        for tag, spec in rng.sample(tam, 5) + [t for t in tam if t[0] in ("wrong_key", "signed_other_seq", "highs")][:2]:
            steps.append({"op": "from_str", "kts": kts, "text": {"b64": spec, "prefix": cps("enr:")}, "tag": "text_" + tag})
            steps.append({"op": "from_json", "kts": kts, "quote": True, "text": {"b64": spec, "prefix": cps("enr:")}, "tag": "json_" + tag})
        # byte edits
        for _ in range(12):
            steps.append({"op": "decode", "kts": kts, "tag": "edit",
                          "input": {"mut": {"base": base, "edits": [
                              {"k": rng.choice(["set", "ins"]), "i": rng.randrange(300), "b": rng.randrange(256)}]}}})
        out.append({"sid": sid(), "steps": steps})
    # signed content of every length around the short / long list-header boundary (53..58 bytes), both schemes: valid as
    # they are; signed over a non-canonically framed list they are not
    steps = []
    for by in (SECP_SIGNERS[0], SECP_SIGNERS[-1], ED_SIGNERS[0]):
        basep = sorted([[B("id"), enc_str(B("v4"))], [B(pk_key(by)), enc_str(KEYS[by]["pk"])]], key=lambda p: bytes(p[0]))
        for target in range(52, 60):
            for n in range(0, 12):
                ps = sorted(basep + [[B("a"), enc_str([0x81] * n)]], key=lambda p: bytes(p[0])) if n else basep
                clen = len(enc_str([1])) + sum(len(enc_str(k)) + len(v) for k, v in ps)
                if clen == target:
                    r0 = {"seq": [1], "pairs": ps, "by": by}
                    steps.append({"op": "decode", "kts": kts, "input": recspec(r0), "tag": "valid"})
                    for fr in ("long", "long2", "str"):
                        steps.append({"op": "decode", "kts": kts, "input": recspec(r0, sig={"frame": fr}), "tag": "signed_over_other_framing_" + fr})
                    break
    out.append({"sid": sid(), "steps": steps})
    # unstructured bytes
    steps = []
    for _ in range(max(20, n_records * 4)):
        n = rng.choice([0, 1, 2, 3, 10, 50, 100, 200, 300, 301, 400])
        b = rand_bytes(rng, n)
        if b and rng.random() < 0.5:
            b[0] = rng.choice([0xf8, 0xf9, 0xc0, 0xc1, 0xf7, 0xb8, 0x80, 0xff])
        steps.append({"op": "decode", "kts": kts, "input": {"raw": b}, "tag": "random"})
    out.append({"sid": sid(), "steps": steps})
    return out


# ---------------------------------------------------------------- C02: structural mutations, re-signed
def valid_rich_record(rng, signer=None):
    """valid record with many reserved keys and custom values"""
    rec = rand_record(rng, signer=signer)
    return rec


def flat(rec):
    """item list in record order: [seq, k, v, k, v ...] as ITEM specs; values verbatim"""
    return items_of(rec)


def struct_mutations(rng, rec):
    """yield (tag, recspec) : each violates (at most) one structural rule and is signed over the mutated content"""
    by = rec["by"]
    sch = scheme_of(by)
    pkk = B(pk_key(by))
    pairs = rec["pairs"]
    seq = rec["seq"]

    def mk(items, **kw):
        r = {"items": items, "sig": {"by": by}}
        r.update(kw)
        return {"rec": r}

    def with_pairs(ps, seq_item=None):
        it = [seq_item if seq_item is not None else {"s": seq}]
        for k, v in ps:
            it.append(k if isinstance(k, dict) else {"s": k})
            it.append(v if isinstance(v, dict) else {"x": v})
        return it

    out = []
    base = with_pairs(pairs)
    out.append(("valid", mk(base)))
    # ordering
    if len(pairs) >= 2:
        j = rng.randrange(len(pairs) - 1)
        sw = pairs[:j] + [pairs[j + 1], pairs[j]] + pairs[j + 2:]
        out.append(("unsorted_swap", mk(with_pairs(sw))))
        rv = list(reversed(pairs))
        out.append(("unsorted_reversed", mk(with_pairs(rv))))
    j = rng.randrange(len(pairs))
    dup = pairs[:j + 1] + [pairs[j]] + pairs[j + 1:]
    out.append(("duplicate_key", mk(with_pairs(dup))))
    dup2 = pairs[:j + 1] + [[pairs[j][0], enc_str(rand_bytes(rng, 3))]] + pairs[j + 1:]
    if bytes(pairs[j][0]) not in (b"id", b"ip", b"ip6", b"tcp", b"tcp6", b"udp", b"udp6", b"secp256k1", b"ed25519"):
        out.append(("duplicate_key_other_value", mk(with_pairs(dup2))))
    # missing value / lone key
    out.append(("missing_last_value", mk(base[:-1])))
    out.append(("lone_key_appended", mk(base + [{"s": B("zzzz")}])))
    out.append(("value_without_key_prepended", mk([base[0], {"s": [1, 2]}] + base[1:])))
    # id
    noid = [p for p in pairs if bytes(p[0]) != b"id"]
    out.append(("id_missing", mk(with_pairs(noid))))
    for tag, v in [("id_v5", enc_str(B("v5"))), ("id_empty", enc_str([])), ("id_V4", enc_str(B("V4"))),
                   ("id_v4x", enc_str(B("v4x"))), ("id_list", enc_list([enc_str(B("v4"))]))]:
        out.append((tag, mk(with_pairs([[k, (v if bytes(k) == b"id" else x)] for k, x in pairs]))))
    # public key
    nopk = [p for p in pairs if p[0] != pkk]
    out.append(("pk_missing", mk(with_pairs(nopk))))

    def pk_with(v):
        return with_pairs([[k, (v if k == pkk else x)] for k, x in pairs])

    if sch == "secp":
        for tag, v in [("pk_33_zero", enc_str([0] * 33)), ("pk_02_ff", enc_str([2] + [255] * 32)),
                       ("pk_32_bytes", enc_str(KEYS[by]["pk"][:32])), ("pk_34_bytes", enc_str(KEYS[by]["pk"] + [0])),
                       ("pk_prefix_04", enc_str([4] + KEYS[by]["pk"][1:])), ("pk_empty", enc_str([])),
                       ("pk_compact_tag_05", enc_str([5] + KEYS[by]["pk"][1:])), ("pk_tag_00", enc_str([0] + KEYS[by]["pk"][1:])),
                       ("pk_other_parity", enc_str([5 - KEYS[by]["pk"][0]] + KEYS[by]["pk"][1:])),
                       ("pk_64_raw_xy", enc_str(KEYS[by].get("xy", [0] * 64))), ("pk_65_uncompressed", enc_str([4] + KEYS[by].get("xy", [0] * 64))),
                       ("pk_65_hybrid", enc_str([6 + (KEYS[by].get("xy", [0] * 64)[63] & 1)] + KEYS[by].get("xy", [0] * 64))),
                       ("pk_list", enc_list([enc_str(KEYS[by]["pk"])]))]:
            out.append((tag, mk(pk_with(v))))
        # a record that carries only an ed25519 key (signed with the secp key): no key type may accept
        onlyed = sorted(nopk + [[B("ed25519"), enc_str(KEYS["e1"]["pk"])]], key=lambda p: bytes(p[0]))
        out.append(("only_other_scheme_key", mk(with_pairs(onlyed))))
    else:
        # small-order public key with the trivial signature R = identity, S = 0 (verifies under the non-strict rule)
        ident = [1] + [0] * 31
        so = sorted([p for p in nopk] + [[pkk, enc_str(ident)]], key=lambda p: bytes(p[0]))
        out.append(("ed_small_order_key_trivial_sig", {"rec": {"items": with_pairs(so), "sig": {"raw": ident + [0] * 32}}}))
        out.append(("ed_small_order_key_signed", mk(with_pairs(so))))
        # non-canonical encodings of the same point (x sign bit set although x = 0; y = p + 1; both): where the
        # back-end accepts them the record's key -- and hence the node id's preimage -- is the bytes as stored
        for tagn, enc in [("signbit", [1] + [0] * 30 + [0x80]), ("y_p_plus_1", [0xee] + [0xff] * 30 + [0x7f]), ("both", [0xee] + [0xff] * 31)]:
            nc = sorted([p for p in nopk] + [[pkk, enc_str(enc)]], key=lambda p: bytes(p[0]))
            out.append(("ed_noncanonical_identity_" + tagn, {"rec": {"items": with_pairs(nc), "sig": {"raw": ident + [0] * 32}}}))
        for tag, v in [("pk_31_bytes", enc_str(KEYS[by]["pk"][:31])), ("pk_33_bytes", enc_str(KEYS[by]["pk"] + [0])),
                       ("pk_empty", enc_str([])), ("pk_list", enc_list([enc_str(KEYS[by]["pk"])]))]:
            out.append((tag, mk(pk_with(v))))
    # the OTHER scheme's public-key key with an invalid / a valid foreign key next to the signer's own (C11)
    okey = "ed25519" if sch == "secp" else "secp256k1"
    for tag, v in [("other_scheme_key_junk", enc_str([2] + [255] * 32)), ("other_scheme_key_empty", enc_str([])),
                   ("other_scheme_key_valid", enc_str(KEYS["e1" if sch == "secp" else "k2"]["pk"])),
                   ("other_scheme_key_list", enc_list([enc_str([1])]))]:
        ps = sorted([p for p in pairs if p[0] != B(okey)] + [[B(okey), v]], key=lambda p: bytes(p[0]))
        out.append((tag, mk(with_pairs(ps))))
    # ill-typed reserved values (added or replaced)
    def with_kv(k, v):
        ps = [p for p in pairs if p[0] != B(k)] + [[B(k), v]]
        return with_pairs(sorted(ps, key=lambda p: bytes(p[0])))

    for tag, k, v in [("ip_3", "ip", enc_str([1, 2, 3])), ("ip_5", "ip", enc_str([1, 2, 3, 4, 5])), ("ip_empty", "ip", enc_str([])),
                      ("ip_list", "ip", enc_list([enc_str([1, 2, 3, 4])])),
                      ("ip6_15", "ip6", enc_str([7] * 15)), ("ip6_17", "ip6", enc_str([7] * 17)), ("ip6_4", "ip6", enc_str([1, 2, 3, 4])),
                      ("port_3_bytes", rng.choice(PORT_KEYS), enc_str([1, 0, 0])),
                      ("port_leading_zero", rng.choice(PORT_KEYS), [0x82, 0, 80]),
                      ("port_zero_byte", rng.choice(PORT_KEYS), [0]),
                      ("port_list", rng.choice(PORT_KEYS), enc_list([enc_uint(80)])),
                      ("port_noncanon_single", rng.choice(PORT_KEYS), [0x81, 0x50]),
                      ("port_ok_boundary", rng.choice(PORT_KEYS), enc_uint(rng.choice([0, 1, 127, 128, 255, 256, 65535])))]:
        out.append((tag, mk(with_kv(k, v))))
    # non-canonical integers / framing
    for tag, it in [("seq_leading_zero", {"x": [0x82, 0, 1]}), ("seq_zero_byte", {"x": [0]}), ("seq_9_bytes", {"s": [1] * 9}),
                    ("seq_list", {"l": [{"s": [1]}]}), ("seq_noncanon_single", {"x": [0x81, 5]}),
                    ("seq_longform", {"x": [0xb8, 1, 0x90]}), ("seq_8_bytes_max", {"s": [255] * 8}), ("seq_empty", {"s": []})]:
        out.append((tag, mk(with_pairs(pairs, seq_item=it))))
    ck = B("zq")
    for tag, v in [("val_noncanon_single", [0x81, 0x05]), ("val_longform_short", [0xb8, 3, 1, 2, 3]),
                   ("val_len_leading_zero", [0xb9, 0, 56] + [1] * 56), ("val_list_longform_short", [0xf8, 2, 1, 2]),
                   ("val_two_items", [1, 2]), ("val_empty_raw", []),
                   ("val_nested_ok", enc_list([enc_list([enc_str([1, 2])]), enc_str([])])),
                   ("val_nested_inner_bad", [0xc2, 0x81, 0x05])]:
        out.append((tag, mk(with_kv("zq", v))))
    out.append(("key_is_list", mk(base + [{"l": [{"s": B("zz")}]}, {"s": [1]}])))
    out.append(("key_noncanon_single", mk(base + [{"x": [0x81, 0x7a]}, {"s": [1]}])))
    out.append(("overrun_last_value", mk(base + [{"s": B("zz")}, {"x": [0x85, 1, 2]}])))
    out.append(("overrun_key_header", mk(base + [{"x": [0x83, 0x7a]}])))
    # outer framing
    out.append(("outer_string_header", mk(base, outer={"str": True})))
    out.append(("outer_len_minus_1", mk(base, outer={"delta": -1})))
    out.append(("outer_len_plus_1", mk(base, outer={"delta": 1})))
    out.append(("outer_noncanon_long", mk(base, outer={"long": True})))
    out.append(("outer_len_leading_zero", mk(base, outer={"long0": True})))
    # sizes around the limit
    for target in [299, 300, 301, 302, 303]:
        p2 = pad_to(rng, seq, [p for p in pairs if bytes(p[0]) != b"zpad"], target)
        if p2:
            out.append(("size_%d" % target, mk(with_pairs(p2))))
    out.append(("sig_list_header", {"rec": {"items": base, "sig": {"by": by, "as": "lh"}}}))
    out.append(("sig_wrapped_in_list", {"rec": {"items": base, "sig": {"by": by, "as": "l"}}}))
    # tiny lists
    out.append(("empty_list", {"raw": [0xc0]}))
    out.append(("sig_only", {"rec": {"items": [], "sig": {"by": by}}}))
    out.append(("sig_seq_only", mk([{"s": seq}])))
    out.append(("empty_input", {"raw": []}))
    return out


def gen_struct(rng, n_records, kts=KT_ALL):
    sid = Sid("struct")
    out = []
    for r in range(n_records):
        rec = valid_rich_record(rng)
        steps = []
        for tag, spec in struct_mutations(rng, rec):
            steps.append({"op": "decode", "kts": kts, "input": spec, "tag": tag})
        # structural defects that the signature does NOT cover (the signed content is the intact record): an item appended
        # behind the last pair -- a key, the empty string, a list --, the last value cut off, a pair prepended
        orig = items_of(rec)
        for tag, items in [("unsigned_dangling_key", orig + [{"s": B("zzzz")}]), ("unsigned_dangling_empty_string", orig + [{"s": []}]),
                           ("unsigned_dangling_list", orig + [{"x": [0xc0]}]), ("unsigned_last_value_missing", orig[:-1]),
                           ("unsigned_pair_prepended", [orig[0], {"s": [0x01]}, {"s": [2]}] + orig[1:])]:
            steps.append({"op": "decode", "kts": kts, "input": {"rec": {"items": items, "sig": {"by": rec["by"], "over": orig}}}, "tag": tag})
        # a pair written twice, verbatim, while the signature covers the record with the pair once: a decoder that lets equal
        # keys through and keeps one of the two values reconstructs exactly the signed content (C02-m15); no random draws
        npairs = (len(orig) - 1) // 2
        for j in sorted({0, npairs // 2, npairs - 1}):
            twice = orig[:1 + 2 * j] + orig[1 + 2 * j:3 + 2 * j] + orig[1 + 2 * j:]
            steps.append({"op": "decode", "kts": kts, "input": {"rec": {"items": twice, "sig": {"by": rec["by"], "over": orig}}}, "tag": "unsigned_pair_twice"})
        out.append({"sid": sid(), "steps": steps})
    return out


def gen_valid(rng, n, kts=KT_ALL, full_every=4):
    """valid records, some with the full observation (text forms, typed accessors, re-decodings)"""
    sid = Sid("valid")
    out = []
    for i in range(n):
        rec = rand_record(rng)
        kt = rng.choice([k for k in kts if scheme_ok(k, rec["by"])])
        st = {"op": "decode", "h": "r", "kt": kt, "kts": kts, "input": recspec(rec), "tag": "valid"}
        if i % full_every == 0:
            st["obs"] = "full"
        out.append({"sid": sid(), "steps": [st]})
    return out


def scheme_ok(kt, signer):
    base = kt[1:] if kt.startswith("w") else kt
    if base in ("k256", "libsecp", "var"):
        return scheme_of(signer) == "secp"
    if base == "ed":
        return scheme_of(signer) == "ed"
    return True


# ---------------------------------------------------------------- C13: suffixes, streams, lists
def gen_prefix(rng, n, kts=KT_ALL):
    sid = Sid("prefix")
    out = []
    for i in range(n):
        rec = rand_record(rng)
        other = rand_record(rng)
        muts = struct_mutations(rng, rec)
        steps = []
        mini_signer = rng.choice(SECP_SIGNERS + ED_SIGNERS)
        mini = {"seq": rng.choice([[], [1], [200]]), "pairs": rand_pairs(rng, mini_signer, extra_reserved=False, max_custom=0), "by": mini_signer}
        sized = []
        for target in (257, 258, 259, 260, 261, 299, 300):
            bs = rng.choice(SECP_SIGNERS[:4] + ED_SIGNERS[:2])
            p0 = rand_pairs(rng, bs, extra_reserved=False, max_custom=0)
            p1 = pad_to(rng, [1], p0, target)
            if p1:
                sized.append(("valid_size_%d" % target, {"rec": {"seq": [1], "pairs": p1, "sig": {"by": bs}}}))
        cands = sized + [("valid", recspec(rec)), ("valid_minimal", recspec(mini)), ("empty_list", {"raw": [0xc0]}), ("one_byte", {"raw": [5]}),
                 ("short_string", {"raw": [0x83, 1, 2, 3]})] + [m for m in rng.sample(muts, 6) if "raw" not in m[1]]
        for tag, spec in cands:
            for sn in rng.sample([1, 2, 3, 4, 5, 50, 166, 167, 200, 300, 1000], 4):
                kind = rng.choice(["zeros", "random", "record", "truncated"])
                if kind == "zeros":
                    sfx = {"raw": [0] * sn}
                elif kind == "random":
                    sfx = {"raw": rand_bytes(rng, sn)}
                elif kind == "record":
                    sfx = recspec(other)
                else:
                    sfx = {"mut": {"base": recspec(other), "edits": [{"k": "trunc", "n": rng.randrange(1, 60)}]}}
                steps.append({"op": "decode", "kts": kts, "input": {"concat": [spec, sfx]}, "tag": "sfx_%s_%s" % (kind, tag)})
        out.append({"sid": sid(), "steps": steps})
        # streams and lists
        steps = []
        for kt in kts:
            sigs = [s for s in SECP_SIGNERS + ED_SIGNERS if scheme_ok(kt, s)]
            k = rng.randrange(1, 9)
            recs = [rand_record(rng, signer=rng.choice(sigs)) for _ in range(k)]
            # keep the list under a few hundred bytes per record; total may exceed 300 (that is the point)
            specs = [recspec(r) for r in recs]
            steps.append({"op": "decode_stream", "kt": kt, "input": {"concat": specs}, "tag": "stream_valid_%d" % k})
            steps.append({"op": "decode_list", "kt": kt, "input": {"list": specs}, "tag": "list_valid_%d" % k})
            # one invalid record at a random position
            j = rng.randrange(k)
            bad = list(specs)
            tag, m = rng.choice([m for m in struct_mutations(rng, recs[j]) if m[0] not in ("valid", "port_ok_boundary", "seq_8_bytes_max", "seq_empty", "val_nested_ok", "size_299", "size_300", "empty_input")])
            bad[j] = m
            steps.append({"op": "decode_stream", "kt": kt, "input": {"concat": bad}, "tag": "stream_bad_%s" % tag})
            steps.append({"op": "decode_list", "kt": kt, "input": {"list": bad}, "tag": "list_bad_%s" % tag})
            for target in (258, 259, 260):
                bs = [x for x in (SECP_SIGNERS[:4] + ED_SIGNERS[:2]) if scheme_ok(kt, x)][0]
                p1 = pad_to(rng, [7], rand_pairs(rng, bs, extra_reserved=False, max_custom=0), target)
                if p1:
                    big = {"rec": {"seq": [7], "pairs": p1, "sig": {"by": bs}}}
                    steps.append({"op": "decode_stream", "kt": kt, "input": {"concat": [big, specs[0], big]}, "tag": "stream_size_%d" % target})
                    steps.append({"op": "decode_list", "kt": kt, "input": {"list": [big, specs[0]]}, "tag": "list_size_%d" % target})
            if kt == "comb":
                er = rand_record(rng, signer="e1")
                sr = rand_record(rng, signer="k1")
                sr["pairs"] = sorted([p for p in sr["pairs"] if bytes(p[0]) != b"ed25519"] + [[B("ed25519"), enc_str(KEYS["e2"]["pk"])]], key=lambda p: bytes(p[0]))
                if rec_len(sr["seq"], sr["pairs"]) <= 300:
                    steps.append({"op": "decode_stream", "kt": kt, "input": {"concat": [recspec(er), recspec(sr), recspec(er)]}, "tag": "stream_ed_then_secp_with_ed_entry"})
                    steps.append({"op": "decode_list", "kt": kt, "input": {"list": [recspec(er), recspec(sr)]}, "tag": "list_ed_then_secp_with_ed_entry"})
                    steps.append({"op": "decode", "kts": [kt], "input": recspec(er), "tag": "valid"})
                    steps.append({"op": "decode", "kts": [kt], "input": recspec(sr), "tag": "valid_after_other_scheme"})
            # a tampered copy (other value, same sequence number and signature) right after its original
            base = recs[0]
            cp = [list(p) for p in base["pairs"]] + [[B("zzt"), enc_str([7])]]
            cp.sort(key=lambda p: bytes(p[0]))
            forged = {"rec": {"seq": base["seq"], "pairs": cp, "sig": {"by": base["by"], "over": items_of(base)}}}
            steps.append({"op": "decode_stream", "kt": kt, "input": {"concat": [specs[0], forged] + specs[1:2]}, "tag": "stream_forged_copy"})
            steps.append({"op": "decode_list", "kt": kt, "input": {"list": [specs[0], forged]}, "tag": "list_forged_copy"})
            steps.append({"op": "decode", "kts": [kt], "input": specs[0], "tag": "valid"})
            steps.append({"op": "decode", "kts": [kt], "input": forged, "tag": "forged_copy_after_original"})
            # trailing garbage after a list / a stream
            steps.append({"op": "decode_list", "kt": kt, "input": {"concat": [{"list": specs[:2]}, {"raw": rand_bytes(rng, 5)}]}, "tag": "list_suffix"})
        out.append({"sid": sid(), "steps": steps})
    # every kind of refused input directly followed, on the same thread, by a valid record alone / with a suffix / in a
    # stream / in a list: what was decoded before must not matter (scratch buffers, hints and caches that an early
    # return leaves dirty)
    rec = rand_record(rng)
    good = recspec(rand_record(rng))
    steps = []
    bads = [m for m in struct_mutations(rng, rec) if m[0] not in ("valid", "port_ok_boundary", "seq_8_bytes_max", "seq_empty", "val_nested_ok", "size_299", "size_300", "empty_input")]
    noid = {"rec": {"seq": rec["seq"], "pairs": [p for p in rec["pairs"] if bytes(p[0]) != b"id"], "sig": {"by": rec["by"]}}}
    for j, (tag, bad) in enumerate([("id_missing_resigned", noid)] + bads):
        steps.append({"op": "decode", "kts": kts, "input": bad, "tag": "poison_" + tag})
        nxt = j % 4
        if nxt == 0:
            steps.append({"op": "decode", "kts": kts, "input": {"concat": [good, {"raw": [0] * 3}]}, "tag": "valid_after_refused"})
        elif nxt == 1:
            steps.append({"op": "decode", "kts": kts, "input": good, "tag": "valid_after_refused"})
        else:
            kt = kts[j % len(kts)]
            okg = recspec(rand_record(rng, signer=[x for x in SECP_SIGNERS + ED_SIGNERS if scheme_ok(kt, x)][0]))
            steps.append({"op": "decode", "kts": [kt], "input": bad, "tag": "poison_" + tag})
            steps.append({"op": "decode_stream" if nxt == 2 else "decode_list", "kt": kt, "input": {"concat": [okg, okg]} if nxt == 2 else {"list": [okg, okg]}, "tag": "after_refused"})
    out.append({"sid": sid(), "steps": steps})
    return out


# ---------------------------------------------------------------- C12: text and JSON forms
def cps(s):
    return [ord(c) for c in s]


def gen_text(rng, n, kts=KT_ALL):
    sid = Sid("text")
    out = []
    for i in range(n):
        rec = rand_record(rng)
        if i < 4:
            # the smallest records of both schemes are always among the subjects
            sg = ["e1", "k1", "e2", "k2"][i]
            rec = {"seq": [[], [1], [1, 0], [200]][i], "pairs": rand_pairs(rng, sg, extra_reserved=False, max_custom=0), "by": sg}
        spec = recspec(rec)
        steps = []
        kt = rng.choice([k for k in kts if scheme_ok(k, rec["by"])])
        steps.append({"op": "decode", "h": "r", "kt": kt, "input": spec, "obs": "full", "tag": "text_base"})

        def t(tag, **kw):
            d = {"b64": spec}
            d.update(kw)
            steps.append({"op": "from_str", "kts": kts, "text": d, "tag": tag})

        t("canonical", prefix=cps("enr:"))
        t("no_prefix")
        for p in ["ENR:", "Enr:", "enr", "enr:enr:", "enr: ", " enr:", "enr;", "nr:", "e"]:
            t("prefix_" + p.strip() + "_", prefix=cps(p))
        t("std_alphabet", prefix=cps("enr:"), std=True)
        t("pad1", prefix=cps("enr:"), pad=1)
        t("pad2", prefix=cps("enr:"), pad=2)
        t("pad3", prefix=cps("enr:"), pad=3)
        for ch in ["A", "=", " ", "\n", "+", "/", "-", "é", "\t", "\u0000", "."]:
            t("append_%04x" % ord(ch), prefix=cps("enr:"), suffix=cps(ch))
            t("insert_%04x" % ord(ch), prefix=cps("enr:"), ins={"at": rng.randrange(0, 200), "cp": ord(ch)})
        for tb in range(1, 16):
            t("trailing_bits_%d" % tb, prefix=cps("enr:"), tb=tb)
        # bytes appended to the encoded record before base64-encoding
        for nb in [1, 2, 3, 4, 7, 30]:
            if rec_len(rec["seq"], rec["pairs"]) + nb <= 300 or True:
                steps.append({"op": "from_str", "kts": kts, "tag": "trailing_bytes_%d" % nb,
                              "text": {"b64": {"concat": [spec, {"raw": rand_bytes(rng, nb)}]}, "prefix": cps("enr:")}})
        # a truncated record
        steps.append({"op": "from_str", "kts": kts, "tag": "truncated",
                      "text": {"b64": {"mut": {"base": spec, "edits": [{"k": "trunc", "n": rng.randrange(1, 100)}]}}, "prefix": cps("enr:")}})
        # JSON documents
        steps.append({"op": "from_json", "kts": kts, "quote": True, "text": {"b64": spec, "prefix": cps("enr:")}, "tag": "json_canonical"})
        steps.append({"op": "from_json", "kts": kts, "quote": True, "text": {"b64": spec}, "tag": "json_no_prefix"})
        steps.append({"op": "from_json", "kts": kts, "quote": True, "text": {"b64": spec, "prefix": cps("enr:"), "suffix": cps("=")}, "tag": "json_pad"})
        steps.append({"op": "from_json", "kts": kts, "quote": True, "text": {"b64": spec, "prefix": cps("enr:"), "suffix": cps("\n")}, "tag": "json_newline"})
        steps.append({"op": "from_json", "kts": kts, "text": {"b64": spec, "prefix": cps('"enr\\u003a'), "suffix": cps('"')}, "tag": "json_escaped_colon"})
        steps.append({"op": "from_json", "kts": kts, "text": {"b64": spec, "prefix": cps('"\\u0065nr:'), "suffix": cps('"')}, "tag": "json_escaped_e"})
        steps.append({"op": "from_json", "kts": kts, "text": {"chars": cps("12345")}, "tag": "json_number"})
        steps.append({"op": "from_json", "kts": kts, "text": {"chars": cps("null")}, "tag": "json_null"})
        steps.append({"op": "from_json", "kts": kts, "text": {"chars": cps('["enr:AAAA"]')}, "tag": "json_array"})
        out.append({"sid": sid(), "steps": steps})
    # unstructured strings
    steps = []
    for s0 in ["abc\u20ac", "ab\U0001F600", "enr\u2236-Iu4QM", "a\u20ac", "enr:\u20ac", "e\u00e9\u00e9\u00e9", "\u00e9nr:AAAA", "en\u00e9:AAAA", "abc\u00e9AAAA",
               "\U0001F600", "\U0001F600\U0001F600", "a\U0001F600b", "enr", "enr:", "enr:A", "AAAA", ""]:
        steps.append({"op": "from_str", "kts": kts, "text": {"chars": cps(s0)}, "tag": "multibyte_text"})
        steps.append({"op": "from_json", "kts": kts, "quote": True, "text": {"chars": cps(s0)}, "tag": "multibyte_json"})
    for nb in range(295, 307):
        body = {"raw": [0xf9, 1, nb - 3] + rand_bytes(rng, nb - 3)}
        steps.append({"op": "from_str", "kts": kts, "text": {"b64": body}, "tag": "long_text_no_prefix_%d" % nb})
        steps.append({"op": "from_str", "kts": kts, "text": {"b64": body, "prefix": cps("enr:")}, "tag": "long_text_prefix_%d" % nb})
        steps.append({"op": "from_json", "kts": kts, "quote": True, "text": {"b64": body}, "tag": "long_json_%d" % nb})
    for ln in list(range(396, 412)) + [600, 1000, 5000]:
        s1 = "".join(rng.choice("ABCDEFGHIJKLMNOPQRSTUVWXYZabcdefghijklmnopqrstuvwxyz0123456789-_") for _ in range(ln))
        steps.append({"op": "from_str", "kts": kts, "text": {"chars": cps(s1)}, "tag": "long_random_text"})
    for _ in range(30 * max(1, n // 4)):
        ln = rng.choice([0, 1, 2, 3, 4, 5, 8, 40, 200, 500])
        alphabet = rng.choice(["ABCDEFabcdef0123456789-_", "enr:AQ-_=", "".join(chr(c) for c in range(32, 127)), "é中A-"])
        s = "".join(rng.choice(alphabet) for _ in range(ln))
        if rng.random() < 0.5:
            s = "enr:" + s
        steps.append({"op": "from_str", "kts": kts, "text": {"chars": cps(s)}, "tag": "random_text"})
        steps.append({"op": "from_json", "kts": kts, "quote": True, "text": {"chars": cps(s)}, "tag": "random_json"})
    out.append({"sid": sid(), "steps": steps})
    return out


# ---------------------------------------------------------------- histories (C03, C05..C10, C15)
BAD_RAW = [[], [0x83, 1], [1, 2], [0x81, 5], [0xb8, 3, 1, 2, 3], [0xc1], [0xc3, 1], [0x80, 0x80], [0xf8, 2, 1, 2], [0x00],
           [0x82, 0, 1], [0xc2, 0x81, 5],
           # a list followed by further items (a smuggled key/value pair), a list followed by one byte
           [0xc0, 0x82, 0x69, 0x70, 0x84, 10, 0, 0, 1], [0xc0, 0x05], [0xc1, 0x01, 0x81, 0x80], [0xc2, 1, 2, 0xc0],
           [0x83, 1, 2, 3, 0x83, 0x74, 0x63, 0x70, 0x50]]


def rand_typed(rng):
    r = rng.random()
    if r < 0.4:
        return {"ty": "bytes", "v": rand_bytes(rng, rng.choice([0, 1, 1, 2, 4, 8, 16, 33, 56, 60]))}
    if r < 0.55:
        return {"ty": "u64", "v": rand_seq(rng)}
    if r < 0.65:
        return {"ty": "u16", "v": rng.choice([0, 1, 127, 128, 255, 256, 65535, rng.randrange(65536)])}
    if r < 0.8:
        return {"ty": "list", "v": [rand_bytes(rng, rng.choice([0, 1, 2, 5])) for _ in range(rng.randrange(0, 4))]}
    if r < 0.9:
        return {"ty": "str", "v": B(rng.choice(["", "a", "hello", "v4", "Nethermind"]))}
    return rng.choice([{"ty": "ip4", "v": rand_ip(rng, 4)}, {"ty": "ip6", "v": rand_ip(rng, 16)}])


def reserved_typed(rng, key):
    """a typed value for a reserved key: well-typed most of the time, ill-typed otherwise"""
    good = rng.random() < 0.6
    if key == "id":
        return {"ty": "bytes", "v": B("v4") if good else B(rng.choice(["v5", "", "v4 ", "V4"]))}
    if key == "ip":
        return {"ty": "bytes", "v": rand_bytes(rng, 4 if good else rng.choice([0, 3, 5, 16]))}
    if key == "ip6":
        return {"ty": "bytes", "v": rand_bytes(rng, 16 if good else rng.choice([0, 4, 15, 17]))}
    if key in PORT_KEYS:
        if good:
            return {"ty": "u16", "v": rng.randrange(65536)}
        return rng.choice([{"ty": "bytes", "v": [1, 0, 0]}, {"ty": "bytes", "v": [0, 80]}, {"ty": "u64", "v": [1, 0, 0]},
                           {"ty": "list", "v": [[80]]}, {"ty": "bytes", "v": [0]}])
    # public-key keys
    return {"ty": "bytes", "v": rand_bytes(rng, rng.choice([0, 32, 33]))}


def rand_call(rng, kt, own, others, hard=True, cross=()):
    """one random mutator call. own: the record's current signer name; others: other signers of the same scheme;
    cross: signers of the other scheme (CombinedKey only) -- such updates are outside C05 but inside C06 when they fail"""
    signer = own if (rng.random() < 0.85 or not others) else rng.choice(others)
    if cross and rng.random() < 0.08:
        signer = rng.choice(list(cross))
    r = rng.random()
    c = {"op": "call", "h": "r", "signer": signer}
    fam = rng.choice(["set_seq", "insert", "insert", "insert_raw", "insert_raw", "typed_set", "typed_set", "remove_typed", "client",
                      "socket", "remove_socket", "remove_key", "remove_insert", "remove_insert", "set_public_key"])
    if fam == "set_seq":
        c.update(m="set_seq", args={"seq": rng.choice(SEQ_BOUNDARY + [rand_seq(rng)])})
    elif fam == "insert":
        if rng.random() < 0.45:
            k = rng.choice(RESERVED)
            c.update(m="insert", args={"key": B(k), "val": reserved_typed(rng, k)})
        else:
            c.update(m="insert", args={"key": rand_custom_key(rng), "val": rand_typed(rng)})
    elif fam == "insert_raw":
        if rng.random() < 0.4:
            k = B(rng.choice(RESERVED))
        else:
            k = rand_custom_key(rng)
        if bytes(k) == b"client" and rng.random() < 0.8:
            c.update(m="insert_raw_rlp", args={"key": k, "raw": client_raw(rng) if rng.random() < 0.8 else enc_list([enc_list([]), enc_str(B("x"))])})
            return c, signer
        rr = rng.random()
        if rr < 0.5:
            raw = rand_value_raw(rng)
        elif rr < 0.8 and hard:
            raw = list(rng.choice(BAD_RAW))
        else:
            raw = rng.choice([enc_str(B("v4")), enc_uint(rng.randrange(65536)), enc_str(rand_bytes(rng, 4)), enc_str(rand_bytes(rng, 16)),
                              enc_str(KEYS[signer]["pk"]), enc_str(rand_bytes(rng, 33))])
        c.update(m="insert_raw_rlp", args={"key": k, "raw": raw})
    elif fam == "typed_set":
        m = rng.choice(["set_ip", "set_ip", "set_udp4", "set_udp6", "set_tcp4", "set_tcp6"])
        if m == "set_ip":
            c.update(m=m, args={"ip": rand_ip(rng, rng.choice([4, 16]))})
        else:
            c.update(m=m, args={"port": rng.choice([0, 1, 80, 127, 128, 255, 256, 30303, 65535, rng.randrange(65536)])})
    elif fam == "remove_typed":
        c.update(m=rng.choice(["remove_udp4", "remove_udp6", "remove_tcp", "remove_tcp6"]), args={})
    elif fam == "client":
        names = ["Nethermind", "geth", "", "x" * rng.choice([1, 30, 56]), "lighthouse"]
        c.update(m="set_client_info", args={"name": B(rng.choice(names)), "version": B(rng.choice(["1.0", "", "v1.9.0-rc2"])),
                                            "build": rng.choice([[], [B("7d04d5a")], [B("")]])})
    elif fam == "socket":
        c.update(m=rng.choice(["set_udp_socket", "set_tcp_socket"]),
                 args={"ip": rand_ip(rng, rng.choice([4, 16])), "port": rng.choice([0, 1, 255, 256, 65535, rng.randrange(65536)])})
    elif fam == "remove_socket":
        c.update(m=rng.choice(["remove_udp_socket", "remove_udp6_socket", "remove_tcp_socket", "remove_tcp6_socket"]), args={})
    elif fam == "remove_key":
        k = rng.choice([B(x) for x in RESERVED] + [rand_custom_key(rng) for _ in range(6)])
        c.update(m="remove_key", args={"key": k})
    elif fam == "remove_insert":
        rm = [rng.choice([B(x) for x in RESERVED[1:]] + [rand_custom_key(rng) for _ in range(5)]) for _ in range(rng.randrange(0, 4))]
        ins = []
        for _ in range(rng.randrange(0, 4)):
            if rng.random() < 0.4 and hard:
                k = rng.choice(RESERVED)
                v = reserved_typed(rng, k)
                payload = v["v"] if v["ty"] in ("bytes", "str") else (be(v["v"]) if v["ty"] == "u16" else [1])
                ins.append([B(k), payload])
            else:
                ins.append([rand_custom_key(rng), rand_bytes(rng, rng.choice([0, 1, 3, 20]))])
        c.update(m="remove_insert", args={"remove": rm, "insert": ins})
    else:
        # own key, another key of the scheme, or (CombinedKey) a key of the other scheme
        c.update(m="set_public_key", args={"pk_of": rng.choice([own] + others + signers_for(kt)) if rng.random() < 0.6 else own})
    return c, signer


def builder_calls(rng, hard=True):
    calls = []
    if rng.random() < 0.6:
        calls.append({"m": "seq", "seq": rng.choice(SEQ_BOUNDARY + [rand_seq(rng)])})
    for _ in range(rng.randrange(0, 6)):
        m = rng.choice(["ip", "ip4", "ip6", "tcp4", "tcp6", "udp4", "udp6", "client_info", "add_value", "add_value", "add_value_rlp", "add_value_rlp"])
        if m == "ip":
            calls.append({"m": m, "ip": rand_ip(rng, rng.choice([4, 16]))})
        elif m == "ip4":
            calls.append({"m": m, "ip": rand_ip(rng, 4)})
        elif m == "ip6":
            calls.append({"m": m, "ip": rand_ip(rng, 16)})
        elif m in ("tcp4", "tcp6", "udp4", "udp6"):
            calls.append({"m": m, "port": rng.choice([0, 1, 255, 256, 65535, rng.randrange(65536)])})
        elif m == "client_info":
            calls.append({"m": m, "name": B(rng.choice(["geth", "", "Nethermind"])), "version": B("1.2"), "build": rng.choice([[], [B("abc")]])})
        elif m == "add_value":
            if rng.random() < 0.3 and hard:
                k = rng.choice(RESERVED)
                calls.append({"m": m, "key": B(k), "val": reserved_typed(rng, k)})
            else:
                calls.append({"m": m, "key": rand_custom_key(rng), "val": rand_typed(rng)})
        else:
            k = B(rng.choice(RESERVED)) if (rng.random() < 0.3 and hard) else rand_custom_key(rng)
            raw = list(rng.choice(BAD_RAW)) if (rng.random() < 0.3 and hard) else rand_value_raw(rng)
            calls.append({"m": m, "key": k, "raw": raw})
    return calls


HIST_KTS = ["k256", "libsecp", "ed", "comb", "wk256", "wed", "wcomb", "var"]


def gen_hist(rng, n, length=(8, 30), kts=HIST_KTS, full_every=5, faults=True, hard=True):
    """random histories: construct (builder or decode of an independently signed record), then updates"""
    sid = Sid("hist")
    out = []
    for i in range(n):
        kt = kts[i % len(kts)]
        sigs = signers_for(kt)
        own = rng.choice(sigs)
        sch = scheme_of(own)
        same = [s for s in sigs if scheme_of(s) == sch and s != own]
        steps = []
        if rng.random() < 0.5:
            b = {"op": "build", "h": "r", "kt": kt, "signer": own, "calls": builder_calls(rng, hard)}
            if rng.random() < 0.4:
                # the same builder is used for a second build (after further calls)
                b["rebuild"] = True
                b["calls2"] = builder_calls(rng, hard)[:2] if rng.random() < 0.6 else []
            steps.append(b)
            # make sure there is a record to work on
            steps.append({"op": "build", "h": "r", "kt": kt, "signer": own, "calls": [{"m": "udp4", "port": 9000}], "ifmissing": True})
        else:
            rec = rand_record(rng, signer=own)
            if kt == "var":
                # VarKey records carry padded signatures: build through the library instead
                steps.append({"op": "build", "h": "r", "kt": kt, "signer": own, "calls": [{"m": "seq", "seq": rec["seq"]}] + builder_calls(rng, False)})
            else:
                steps.append({"op": "decode", "h": "r", "kt": kt, "input": recspec(rec), "tag": "hist_init"})
        ln = rng.randrange(*length)
        traced = kt.startswith("w") or kt == "var"
        for j in range(ln):
            cross = [x for x in sigs if scheme_of(x) != scheme_of(own)]
            c, signer = rand_call(rng, kt, own, same, hard, cross)
            if traced and faults and rng.random() < 0.15:
                c["fault"] = rng.choice([1, 1, 1, 2])
            if (i * 31 + j) % full_every == 0:
                c["obs"] = "full"
            steps.append(c)
            # re-keying is expected to take effect on success; the generator follows the signer used most recently
            # (the specification tracks the real state; this only steers later choices)
            if signer != own and rng.random() < 0.5:
                own = signer
                same = [x for x in sigs if scheme_of(x) == scheme_of(own) and x != own]
            if rng.random() < 0.12:
                steps.append({"op": "clone", "h": "c", "from": "r"})
                steps.append({"op": "compare", "a": "r", "b": "c"})
            elif rng.random() < 0.1 and any(s.get("h") == "c" for s in steps):
                steps.append({"op": "compare", "a": "r", "b": "c"})
        out.append({"sid": sid(), "steps": steps})
    return out


# ---------------------------------------------------------------- C16: NodeId
def gen_nodeid(rng, n_random):
    sid = Sid("nodeid")
    steps = []
    pats = [[0] * 32, [255] * 32, list(range(32)), list(range(224, 256)), [1] + [0] * 31, [0] * 31 + [1], [0x80] * 32, [0x0a, 0xbc] * 16]
    for _ in range(n_random):
        pats.append(rand_bytes(rng, 32))
    for p in pats:
        steps.append({"op": "nodeid", "kind": "new", "bytes": p, "tag": "new"})
        steps.append({"op": "nodeid", "kind": "parse", "bytes": p, "tag": "parse32"})
    for ln in range(0, 65):
        steps.append({"op": "nodeid", "kind": "parse", "bytes": rand_bytes(rng, ln), "tag": "parse_len"})
        steps.append({"op": "nodeid", "kind": "parse", "bytes": [1] * ln, "tag": "parse_len"})
    # 33..35-byte slices that frame or pad a 32-byte id: RLP string headers (a0, b8 20), zero padding, a SEC1 / multihash-like tag
    body = rand_bytes(rng, 32)
    for pre in ([0xa0], [0xb8, 0x20], [0x00], [0x04], [0x20], [0x80], [0x30, 0x78], [0x12, 0x20], [0x1b, 0x20]):
        steps.append({"op": "nodeid", "kind": "parse", "bytes": pre + body, "tag": "parse_framed"})
        steps.append({"op": "nodeid", "kind": "parse", "bytes": body + pre, "tag": "parse_framed"})
    for cut in (1, 2):
        steps.append({"op": "nodeid", "kind": "parse", "bytes": [0xa0 - cut] + body[cut:], "tag": "parse_framed"})
    hexd = "0123456789abcdef"
    for ln in range(0, 71):
        for pref in ["", "0x", "0X", "0x0x", "x0"]:
            for case in ["lower", "upper", "mixed"]:
                s = "".join(rng.choice(hexd) for _ in range(ln))
                if case == "upper":
                    s = s.upper()
                elif case == "mixed":
                    s = "".join(c.upper() if rng.random() < 0.5 else c for c in s)
                steps.append({"op": "nodeid", "kind": "json", "text": cps('"' + pref + s + '"'), "tag": "json_len_%s" % case})
    for _ in range(40 + n_random):
        s = [rng.choice(hexd) for _ in range(64)]
        pos = rng.choice([0, 1, 31, 32, 62, 63, rng.randrange(64)])
        s[pos] = rng.choice("gGzZ -_+/xé \n.")
        for pref in ["", "0x"]:
            steps.append({"op": "nodeid", "kind": "json", "text": cps('"' + pref + "".join(s) + '"'), "tag": "json_nonhex"})
    for c in range(0, 128):
        ch = chr(c)
        if ch in "0123456789abcdefABCDEF":
            continue
        digs = [rng.choice(hexd) for _ in range(64)]
        pos = rng.choice([0, 1, 62, 63, rng.randrange(64)])
        lit = ("\\u%04x" % c) if (c < 0x20 or ch in '"\\' or c == 0x7f) else ch
        body = "".join(digs[:pos]) + lit + "".join(digs[pos + 1:])
        steps.append({"op": "nodeid", "kind": "json", "text": cps('"' + rng.choice(["", "0x"]) + body + '"'), "tag": "json_nonhex_ascii"})
    for doc in ['""', '"0x"', 'null', '123', '[]', '{}', '"0x' + "ab" * 32 + '" ', ' "' + "cd" * 32 + '"', '"\\u0030x' + "ab" * 32 + '"',
                '"0x' + "ab" * 32 + '"x', '"' + "AB" * 32 + '"', '"0x' + "Ab" * 32 + '"', '"0x' + "ab" * 31 + 'a"', '"0x' + "ab" * 32 + 'a"']:
        steps.append({"op": "nodeid", "kind": "json", "text": cps(doc), "tag": "json_doc"})
    return [{"sid": sid(), "steps": steps}]


# ---------------------------------------------------------------- C17: CombinedKey secret import / export
def gen_keys(rng, n_random):
    sid = Sid("keys")
    N = 0xFFFFFFFFFFFFFFFFFFFFFFFFFFFFFFFEBAAEDCE6AF48A03BBFD25E8CD0364141
    steps = []
    vals = [0, 1, 2, 3, N - 2, N - 1, N, N + 1, N + 2, 2 ** 255, 2 ** 256 - 1, 2 ** 256 - 2, N // 2, N // 2 + 1, 2 ** 128, 2 ** 248]
    for v in vals:
        b = list(v.to_bytes(32, "big"))
        steps.append({"op": "key_import", "scheme": "secp", "bytes": b, "tag": "boundary"})
        steps.append({"op": "key_import", "scheme": "ed", "bytes": b, "tag": "boundary"})
    # single-byte perturbations around n
    nb = list(N.to_bytes(32, "big"))
    for i in range(32):
        for d in (-1, 1):
            b = list(nb)
            b[i] = (b[i] + d) % 256
            steps.append({"op": "key_import", "scheme": "secp", "bytes": b, "tag": "perturb_n"})
    for _ in range(n_random):
        b = rand_bytes(rng, 32)
        steps.append({"op": "key_import", "scheme": "secp", "bytes": b, "tag": "random"})
        steps.append({"op": "key_import", "scheme": "ed", "bytes": b, "tag": "random"})
    e1seed = list(bytes.fromhex("9d61b19deffd5a60ba844af492ec2cc44449c5697b326919703bac031cae7f60"))
    e2seed = list(bytes.fromhex("4ccd089b28ff96da9db6c346ec114e0f5b8a319f35aba624da8cf6ed4fb8a6fb"))
    for seed, pk in [(e1seed, KEYS["e1"]["pk"]), (e2seed, KEYS["e2"]["pk"]), (e1seed, KEYS["e2"]["pk"]), (e1seed, [0] * 32), (KEYS["e1"]["pk"], e1seed)]:
        # the 64-byte "keypair" layout (seed || public key) is not a 32-byte secret
        steps.append({"op": "key_import", "scheme": "ed", "bytes": seed + pk, "tag": "ed_keypair_64"})
        steps.append({"op": "key_import", "scheme": "secp", "bytes": seed + pk, "tag": "secp_64"})
    for lead in range(1, 32, 3):
        b = [0] * lead + [rng.randrange(1, 256)] + rand_bytes(rng, 31 - lead)
        steps.append({"op": "key_import", "scheme": "secp", "bytes": b, "tag": "leading_zeros"})
        steps.append({"op": "key_import", "scheme": "ed", "bytes": b, "tag": "leading_zeros"})
    # secrets that look like text: leading / trailing ASCII whitespace or NUL, a "0x" / "0X" start, all hex digits, all printable
    texty = []
    for c in (0x09, 0x0a, 0x0b, 0x0c, 0x0d, 0x20, 0x00, 0x22, 0x27):
        texty.append([c] + rand_bytes(rng, 31))
        texty.append(rand_bytes(rng, 31) + [c])
        texty.append([c, c] + rand_bytes(rng, 28) + [c, c])
    texty += [[0x30, 0x78] + rand_bytes(rng, 30), [0x30, 0x58] + rand_bytes(rng, 30), [ord(ch) for ch in "0123456789abcdefABCDEF0123456789"],
              [ord(ch) for ch in "0x" + "a1" * 15], [rng.randrange(0x20, 0x7f) for _ in range(32)], [0x20] * 32, [0x0a] * 32, [0x30] * 32]
    # secrets whose 32 bytes are themselves a well-formed key container: SEC1 / PKCS#8-like DER (30 1e 02 01 01 04 19 || 25 bytes,
    # 30 1e 02 01 00 ...), an OCTET STRING header, base64 / base64url text
    texty += [[0x30, 0x1e, 0x02, 0x01, 0x01, 0x04, 0x19] + rand_bytes(rng, 25), [0x30, 0x1e, 0x02, 0x01, 0x00, 0x04, 0x19] + rand_bytes(rng, 25),
              [0x30, 0x1e] + rand_bytes(rng, 30), [0x04, 0x1e] + rand_bytes(rng, 30), [0x04, 0x20] + rand_bytes(rng, 30), [0x02, 0x1e] + rand_bytes(rng, 30),
              [ord(ch) for ch in "QUJDREVGR0hJSktMTU5PUFFSU1RVVldY"], [ord(ch) for ch in "abcdefghijklmnopqrstuvwxyz-_0123"],
              [0xa0] + rand_bytes(rng, 31), [0x80 + 31] + rand_bytes(rng, 31)]
    for b in texty:
        steps.append({"op": "key_import", "scheme": "secp", "bytes": b, "tag": "texty"})
        steps.append({"op": "key_import", "scheme": "ed", "bytes": b, "tag": "texty"})
    for ln in list(range(0, 32)) + list(range(33, 66)):
        steps.append({"op": "key_import", "scheme": "ed", "bytes": rand_bytes(rng, ln), "tag": "ed_len"})
        steps.append({"op": "key_import", "scheme": "secp", "bytes": rand_bytes(rng, ln), "tag": "secp_len"})
    return [{"sid": sid(), "steps": steps}]


# ---------------------------------------------------------------- C07: sequence numbers
ALL_SIMPLE_CALLS = [
    ("insert", lambda rng: {"key": B("zz"), "val": {"ty": "bytes", "v": [1, 2, 3]}}),
    ("insert_raw_rlp", lambda rng: {"key": B("zy"), "raw": enc_str([9, 9])}),
    ("set_ip", lambda rng: {"ip": rand_ip(rng, 4)}),
    ("set_ip", lambda rng: {"ip": rand_ip(rng, 16)}),
    ("set_udp4", lambda rng: {"port": rng.randrange(65536)}),
    ("set_udp6", lambda rng: {"port": rng.randrange(65536)}),
    ("set_tcp4", lambda rng: {"port": rng.randrange(65536)}),
    ("set_tcp6", lambda rng: {"port": rng.randrange(65536)}),
    ("remove_udp4", lambda rng: {}), ("remove_udp6", lambda rng: {}), ("remove_tcp", lambda rng: {}), ("remove_tcp6", lambda rng: {}),
    ("set_client_info", lambda rng: {"name": B("geth"), "version": B("1.0"), "build": []}),
    ("set_udp_socket", lambda rng: {"ip": rand_ip(rng, 4), "port": 30303}),
    ("set_udp_socket", lambda rng: {"ip": rand_ip(rng, 16), "port": 30303}),
    ("set_tcp_socket", lambda rng: {"ip": rand_ip(rng, 4), "port": 80}),
    ("set_tcp_socket", lambda rng: {"ip": rand_ip(rng, 16), "port": 80}),
    ("remove_udp_socket", lambda rng: {}), ("remove_udp6_socket", lambda rng: {}),
    ("remove_tcp_socket", lambda rng: {}), ("remove_tcp6_socket", lambda rng: {}),
    ("remove_key", lambda rng: {"key": B("udp")}),
    ("remove_key", lambda rng: {"key": B("absent")}),
    ("remove_insert", lambda rng: {"remove": [B("udp"), B("tcp")], "insert": [[B("ip"), [10, 0, 0, 1]], [B("udp"), [0x76, 0x5f]], [B("q"), [7]]]}),
    ("remove_insert", lambda rng: {"remove": [], "insert": []}),
    ("set_public_key", lambda rng: {"pk_of": "OWN"}),
]


def gen_seq(rng, kts=("k256", "libsecp", "ed", "comb"), seqs=None, calls_per=None):
    sid = Sid("seq")
    out = []
    seqs = seqs or SEQ_BOUNDARY + [[0x7f, 0xff], [0xff, 0xff, 0xff], [1, 0, 0, 0], [255] * 5, [1] + [0] * 5, [255] * 6, [1] + [0] * 6, [1] + [0] * 7]
    for kt in kts:
        own = signers_for(kt)[0]
        for seq in seqs:
            steps = []
            pairs = rand_pairs(rng, own, max_custom=1)
            calls = ALL_SIMPLE_CALLS if calls_per is None else rng.sample(ALL_SIMPLE_CALLS, calls_per)
            for m, af in calls:
                args = af(rng)
                if args.get("pk_of") == "OWN":
                    args["pk_of"] = own
                steps.append({"op": "decode", "h": "r", "kt": kt, "input": {"rec": {"seq": seq, "pairs": pairs, "sig": {"by": own}}}, "tag": "seq_init"})
                steps.append({"op": "call", "h": "r", "m": m, "args": args, "signer": own})
                # the identical call once more: nothing changes but it is a complete update (+1, or overflow)
                steps.append({"op": "call", "h": "r", "m": m, "args": args, "signer": own})
            # public-key changes to every other key the key type knows (CombinedKey: also the other scheme)
            for other in [x for x in signers_for(kt) if x != own]:
                steps.append({"op": "decode", "h": "r", "kt": kt, "input": {"rec": {"seq": seq, "pairs": pairs, "sig": {"by": own}}}, "tag": "seq_init"})
                steps.append({"op": "call", "h": "r", "m": "set_public_key", "args": {"pk_of": other}, "signer": own})
            # the same value written again with ANOTHER key of the scheme: a complete update that re-keys
            others = [x for x in signers_for(kt) if scheme_of(x) == scheme_of(own) and x != own]
            for m, af in calls[:6]:
                args = af(rng)
                if "pk_of" in args:
                    continue
                steps.append({"op": "decode", "h": "r", "kt": kt, "input": {"rec": {"seq": seq, "pairs": pairs, "sig": {"by": own}}}, "tag": "seq_init"})
                steps.append({"op": "call", "h": "r", "m": m, "args": args, "signer": own})
                steps.append({"op": "call", "h": "r", "m": m, "args": args, "signer": others[0]})
            # set_seq to every boundary from here (0 always among them)
            for s2 in [[]] + rng.sample(SEQ_BOUNDARY, 4):
                steps.append({"op": "call", "h": "r", "m": "set_seq", "args": {"seq": s2}, "signer": own})
            out.append({"sid": sid(), "steps": steps})
        # builder -> encode -> decode with random 64-bit sequence numbers
        steps = []
        for sq in [[255] * 8, [255] * 7 + [254], [1] + [0] * 7, [1] + [0] * 6, [255] * 7, [128] + [0] * 7] + [rand_seq(rng) for _ in range(18)]:
            steps.append({"op": "build", "h": "b", "kt": kt, "signer": own, "obs": "full", "calls": [{"m": "seq", "seq": sq}, {"m": "udp4", "port": 1}],
                          "rebuild": rng.random() < 0.3, "calls2": []})
        # minimal records (id and key only) with sequence numbers of every encoded length: the signed content then has
        # every length 50..58 (secp256k1) / 47..55 (ed25519), across the short / long list-header boundary at 55 / 56
        for sq in [[], [1], [200], [1, 0], [1, 0, 0], [1, 0, 0, 0], [255] * 4, [0x12, 0x34, 0x56, 0x78], [1, 0, 0, 0, 0], [1] + [0] * 5, [1] + [0] * 6, [255] * 7, [1] + [0] * 7]:
            steps.append({"op": "build", "h": "b", "kt": kt, "signer": own, "obs": "full", "calls": [{"m": "seq", "seq": sq}]})
            steps.append({"op": "call", "h": "b", "m": "set_seq", "args": {"seq": sq[:-1] + [(sq[-1] + 1) % 256] if sq else [1]}, "signer": own, "obs": "full"})
            steps.append({"op": "decode", "kts": KT_ALL, "input": {"rec": {"seq": sq, "pairs": sorted([[B("id"), enc_str(B("v4"))], [B(pk_key(own)), enc_str(KEYS[own]["pk"])]], key=lambda p: bytes(p[0])), "sig": {"by": own}}}, "tag": "valid"})
        out.append({"sid": sid(), "steps": steps})
    return out


# ---------------------------------------------------------------- C09: the 300-byte limit
def gen_size(rng, kts=("k256", "libsecp", "ed", "comb"), sizes=range(262, 301), seqs=None, per_size=6, obs="core"):
    """pre-states of every size in `sizes` (filler value), sequence numbers whose encoding grows on increment,
    then one update whose result lands in 280..320"""
    sid = Sid("size")
    seqs = seqs or [[126], [127], [255], [255, 255], [255, 255, 255], [1], [255] * 4, [255] * 7]
    growers = [
        ("set_tcp4", lambda rng: {"port": rng.choice([1, 255, 256, 65535])}),
        ("set_udp6", lambda rng: {"port": rng.choice([0, 127, 128, 65535])}),
        ("set_ip", lambda rng: {"ip": rand_ip(rng, 4)}),
        ("set_ip", lambda rng: {"ip": rand_ip(rng, 16)}),
        ("insert", lambda rng: {"key": B("y"), "val": {"ty": "bytes", "v": rand_bytes(rng, rng.randrange(0, 40))}}),
        ("insert_raw_rlp", lambda rng: {"key": B("yy"), "raw": enc_str(rand_bytes(rng, rng.randrange(0, 30)))}),
        ("set_udp_socket", lambda rng: {"ip": rand_ip(rng, rng.choice([4, 16])), "port": rng.choice([1, 65535])}),
        ("set_tcp_socket", lambda rng: {"ip": rand_ip(rng, rng.choice([4, 16])), "port": rng.choice([1, 65535])}),
        ("set_client_info", lambda rng: {"name": B("n" * rng.randrange(0, 12)), "version": B("1"), "build": rng.choice([[], [B("b")]])}),
        ("remove_insert", lambda rng: {"remove": [B("zpad")] if rng.random() < 0.3 else [], "insert": [[B("w"), rand_bytes(rng, rng.randrange(0, 30))]]}),
        ("remove_key", lambda rng: {"key": B("nothing")}),
        ("remove_udp4", lambda rng: {}),
        ("set_seq", lambda rng: {"seq": rng.choice([[255] * 8, [1, 0], [255], [1] + [0] * 7, [1]])}),
        ("set_public_key", lambda rng: {"pk_of": "OWN"}),
    ]
    out = []
    for kt in kts:
        own = signers_for(kt)[0]
        base_pairs = [[B("id"), enc_str(B("v4"))], [B(pk_key(own)), enc_str(KEYS[own]["pk"])]]
        base_pairs.sort(key=lambda p: bytes(p[0]))
        steps = []
        for size in sizes:
            for _ in range(per_size):
                seq = rng.choice(seqs)
                pairs = pad_to(rng, seq, base_pairs, size)
                if pairs is None:
                    continue
                m, af = rng.choice(growers)
                args = af(rng)
                if args.get("pk_of") == "OWN":
                    args["pk_of"] = own
                steps.append({"op": "decode", "h": "r", "kt": kt, "input": {"rec": {"seq": seq, "pairs": pairs, "sig": {"by": own}}}, "tag": "size_%d" % size})
                steps.append({"op": "call", "h": "r", "m": m, "args": args, "signer": own, "obs": obs})
            if len(steps) > 400:
                out.append({"sid": sid(), "steps": steps})
                steps = []
        if steps:
            out.append({"sid": sid(), "steps": steps})
        # the builder around the limit: filler sizes so that the built record has 285..310 bytes
        steps = []
        for fill in range(150, 200):
            calls = [{"m": "seq", "seq": rng.choice(seqs)}, {"m": "add_value", "key": B("zpad"), "val": {"ty": "bytes", "v": [0xAA] * fill}}]
            steps.append({"op": "build", "h": "b", "kt": kt, "signer": own, "calls": calls, "obs": obs})
        out.append({"sid": sid(), "steps": steps})
    # variable-length signatures: upper bound and size() only
    steps = []
    for fill in range(100, 200, 2):
        steps.append({"op": "build", "h": "v", "kt": "var", "signer": "k1", "calls": [{"m": "add_value", "key": B("zpad"), "val": {"ty": "bytes", "v": [0xAA] * fill}}]})
        steps.append({"op": "call", "h": "v", "m": "set_udp4", "args": {"port": rng.randrange(65536)}, "signer": "k1"})
        steps.append({"op": "call", "h": "v", "m": "insert", "args": {"key": B("q"), "val": {"ty": "bytes", "v": rand_bytes(rng, rng.randrange(0, 30))}}, "signer": "k1"})
        steps.append({"op": "call", "h": "v", "m": "set_seq", "args": {"seq": rand_seq(rng)}, "signer": "k1"})
    out.append({"sid": sid(), "steps": steps})
    return out


# ---------------------------------------------------------------- C14: typed accessors
def gen_typed(rng, ports, routes=("builder", "setter", "socket", "decode"), keys=PORT_KEYS, kts=("k256",), extra=40):
    sid = Sid("typed")
    out = []
    setter = {"tcp": "set_tcp4", "tcp6": "set_tcp6", "udp": "set_udp4", "udp6": "set_udp6"}
    bmeth = {"tcp": "tcp4", "tcp6": "tcp6", "udp": "udp4", "udp6": "udp6"}
    for kt in kts:
        own = signers_for(kt)[0]
        for key in keys:
            for route in routes:
                steps = [{"op": "build", "h": "r", "kt": kt, "signer": own, "obs": "typed", "calls": [{"m": "ip4", "ip": [10, 0, 0, 1]}, {"m": "ip6", "ip": [0] * 15 + [1]}]},
                         {"op": "build", "h": "r0", "kt": kt, "signer": own, "obs": "typed", "calls": [{"m": "ip", "ip": [192, 0, 2, 1]}]},
                         {"op": "build", "h": "r0", "kt": kt, "signer": own, "obs": "typed", "calls": [{"m": "ip", "ip": [0x20, 1] + [0] * 13 + [1]}]}]
                for pi, p in enumerate(ports):
                    if route == "builder":
                        b = {"op": "build", "h": "b", "kt": kt, "signer": own, "obs": "typed", "calls": [{"m": bmeth[key], "port": p}]}
                        if pi % 3 == 1:
                            # the same builder builds a second record (another sequence number): what was stored is still there
                            b["rebuild"] = True
                            b["calls2"] = [{"m": "seq", "seq": [2]}] if pi % 2 else []
                        steps.append(b)
                    elif route == "setter":
                        steps.append({"op": "call", "h": "r", "m": setter[key], "args": {"port": p}, "signer": own, "obs": "typed"})
                    elif route == "socket":
                        m = "set_tcp_socket" if key.startswith("tcp") else "set_udp_socket"
                        ip = [10, 0, 0, 2] if not key.endswith("6") else [0xfe, 0x80] + [0] * 13 + [2]
                        steps.append({"op": "call", "h": "r", "m": m, "args": {"ip": ip, "port": p}, "signer": own, "obs": "typed"})
                    else:
                        pairs = sorted([[B("id"), enc_str(B("v4"))], [B(pk_key(own)), enc_str(KEYS[own]["pk"])], [B(key), enc_uint(p)]], key=lambda x: bytes(x[0]))
                        steps.append({"op": "decode", "h": "d", "kt": kt, "obs": "typed", "input": {"rec": {"seq": [1], "pairs": pairs, "sig": {"by": own}}}, "tag": "typed_decode"})
                    if len(steps) >= 2000:
                        out.append({"sid": sid(), "steps": steps})
                        steps = [{"op": "build", "h": "r", "kt": kt, "signer": own, "calls": []}]
                out.append({"sid": sid(), "steps": steps})
    # presence combinations of the six address/port keys, with typed and arbitrary raw values
    kt = kts[0]
    own = signers_for(kt)[0]
    six = ["ip", "ip6", "tcp", "tcp6", "udp", "udp6"]
    steps = []
    for mask in range(64):
        pairs = [[B("id"), enc_str(B("v4"))], [B(pk_key(own)), enc_str(KEYS[own]["pk"])]]
        for b, k in enumerate(six):
            if mask >> b & 1:
                v = enc_str(rand_ip(rng, 4)) if k == "ip" else enc_str(rand_ip(rng, 16)) if k == "ip6" else port_raw(rng)
                pairs.append([B(k), v])
        pairs.sort(key=lambda x: bytes(x[0]))
        steps.append({"op": "decode", "h": "d", "kt": kt, "obs": "full", "input": {"rec": {"seq": rand_seq(rng), "pairs": pairs, "sig": {"by": own}}}, "tag": "typed_decode"})
    out.append({"sid": sid(), "steps": steps})
    # addresses, client strings, arbitrary raw values under client / custom keys
    steps = [{"op": "build", "h": "r", "kt": kt, "signer": own, "calls": []}]
    ips = [[0, 0, 0, 0], [255] * 4, [127, 0, 0, 1], [0] * 16, [255] * 16, [0] * 15 + [1], [0x20, 1, 0xd, 0xb8] + [0] * 12]
    v4 = [192, 0, 2, 7]
    ips += [[0] * 10 + [255, 255] + v4, [0] * 12 + v4, [0, 0x64, 0xff, 0x9b] + [0] * 8 + v4, [0] * 10 + [255, 255, 0, 0, 0, 0],
            [0xfe, 0x80] + [0] * 13 + [1], [0xff, 2] + [0] * 13 + [1], [0, 0, 0, 1], [0, 1, 2, 3], [0, 0, 0, 0], [224, 0, 0, 1]]
    for _ in range(extra):
        ips.append(rand_ip(rng, rng.choice([4, 16])))
    for ip in ips[:10]:
        # the same socket written through the UDP setter, the TCP setter, and both once more (a setter must not take the
        # other transport's entry for its own)
        port = rng.randrange(1, 65536)
        for m in ("set_udp_socket", "set_tcp_socket", "set_tcp_socket", "set_udp_socket"):
            steps.append({"op": "call", "h": "r", "m": m, "args": {"ip": ip, "port": port}, "signer": own, "obs": "typed"})
        steps.append({"op": "call", "h": "r", "m": "remove_tcp_socket" if len(ip) == 4 else "remove_tcp6_socket", "args": {}, "signer": own, "obs": "typed"})
        steps.append({"op": "call", "h": "r", "m": "set_tcp_socket", "args": {"ip": ip, "port": port}, "signer": own, "obs": "typed"})
    for ip in ips:
        steps.append({"op": "call", "h": "r", "m": "set_ip", "args": {"ip": ip}, "signer": own, "obs": "typed"})
        steps.append({"op": "call", "h": "r", "m": rng.choice(["set_udp_socket", "set_tcp_socket"]), "args": {"ip": rand_ip(rng, len(ip)), "port": rng.randrange(65536)}, "signer": own, "obs": "typed"})
    # client values of every arity, with non-UTF-8 strings, nested lists, and the list wrapped in a string
    det_clients = [enc_list([enc_str(B("s%d" % j)) for j in range(ar)]) for ar in range(0, 7)]
    det_clients += [enc_list([enc_str([0x47, 0xe9]), enc_str(B("1"))]), enc_list([enc_str(B("n")), enc_str([0xff, 0xfe]), enc_str([0xde, 0xad])]),
                    enc_str(enc_list([enc_str(B("n")), enc_str(B("v"))])), enc_list([enc_list([enc_str(B("n"))]), enc_str(B("v"))]),
                    enc_str(B("geth/1.0")), enc_list([enc_str([]), enc_str([])])]
    for raw in det_clients:
        steps.append({"op": "call", "h": "r", "m": "insert_raw_rlp", "args": {"key": B("client"), "raw": raw}, "signer": own, "obs": "full"})
    # strings whose payload is itself an encoding, under custom keys (generic getters must treat them as opaque strings)
    for raw in [enc_str(enc_uint(8080)), enc_str(enc_str([1, 2, 3, 4, 5, 6, 7, 8])), enc_str(enc_list([enc_str(B("a"))])), enc_str(enc_str(rand_bytes(rng, 4)))]:
        steps.append({"op": "call", "h": "r", "m": "insert_raw_rlp", "args": {"key": B("wrapped"), "raw": raw}, "signer": own, "obs": "full"})
    for _ in range(extra):
        nm = "".join(rng.choice("abcXYZ019-._ /é") for _ in range(rng.randrange(0, 12)))
        steps.append({"op": "call", "h": "r", "m": "set_client_info", "signer": own, "obs": "full",
                      "args": {"name": B(nm), "version": B(rng.choice(["", "1", "v1.2.3-rc"])), "build": rng.choice([[], [B("x")], [B("")]])}})
        raw = rng.choice([rand_value_raw(rng), enc_list([enc_str(B("a"))]), enc_list([enc_str(B("a")), enc_str(B("b")), enc_str(B("c")), enc_str(B("d"))]),
                          enc_list([enc_str(B("a")), enc_list([enc_str(B("b"))])]), enc_str(B("plain")), enc_list([]), enc_list([enc_str([]), enc_str([])])])
        steps.append({"op": "call", "h": "r", "m": "insert_raw_rlp", "args": {"key": B("client"), "raw": raw}, "signer": own, "obs": "full"})
        steps.append({"op": "call", "h": "r", "m": "insert_raw_rlp", "args": {"key": rand_custom_key(rng), "raw": rand_value_raw(rng)}, "signer": own, "obs": "full"})
        steps.append({"op": "call", "h": "r", "m": "insert", "args": {"key": rand_custom_key(rng), "val": rand_typed(rng)}, "signer": own, "obs": "full"})
        if rng.random() < 0.3:
            steps.append({"op": "call", "h": "r", "m": "remove_key", "args": {"key": rand_custom_key(rng)}, "signer": own, "obs": "full"})
    out.append({"sid": sid(), "steps": steps})
    return out


# ---------------------------------------------------------------- C15: equality / hashing / content comparison
def gen_eq(rng, n, kts=("k256", "libsecp", "ed", "comb")):
    sid = Sid("eq")
    out = []
    for i in range(n):
        kt = kts[i % len(kts)]
        sigs = signers_for(kt)
        own = rng.choice(sigs)
        other = rng.choice([s for s in sigs if scheme_of(s) == scheme_of(own) and s != own])
        rec = rand_record(rng, signer=own)
        while rec_len(rec["seq"], rec["pairs"]) > 280 or rec["seq"] == [255] * 8:
            rec = rand_record(rng, signer=own)
        steps = [{"op": "decode", "h": "a", "kt": kt, "input": recspec(rec), "obs": "full", "tag": "eq_base"},
                 {"op": "clone", "h": "c", "from": "a"},
                 {"op": "decode", "h": "d", "kt": kt, "input": {"from": "a"}, "tag": "eq_redecode"},
                 # same content signed again (randomized schemes give another signature)
                 {"op": "clone", "h": "s", "from": "a"},
                 {"op": "call", "h": "s", "m": "set_seq", "args": {"seq": rec["seq"]}, "signer": own},
                 # one-field edits
                 {"op": "clone", "h": "e1", "from": "a"},
                 {"op": "call", "h": "e1", "m": "set_udp4", "args": {"port": rng.randrange(65536)}, "signer": own},
                 {"op": "clone", "h": "e2", "from": "a"},
                 {"op": "call", "h": "e2", "m": "insert", "args": {"key": B("q"), "val": {"ty": "bytes", "v": [1]}}, "signer": own},
                 # same content, other sequence number
                 {"op": "clone", "h": "q", "from": "a"},
                 {"op": "call", "h": "q", "m": "set_seq", "args": {"seq": rand_seq(rng)}, "signer": own},
                 # re-keying
                 {"op": "clone", "h": "k", "from": "a"},
                 {"op": "call", "h": "k", "m": "set_seq", "args": {"seq": rec["seq"]}, "signer": other},
                 # an independently signed record with the same content
                 {"op": "decode", "h": "i", "kt": kt, "input": recspec(rec), "tag": "eq_same_bytes"},
                 # same sequence number, the pairs of `a` plus one pair that sorts last / minus its last custom pair
                 {"op": "clone", "h": "p", "from": "a"},
                 {"op": "call", "h": "p", "m": "insert", "args": {"key": B("zzzz"), "val": {"ty": "bytes", "v": [1]}}, "signer": own},
                 {"op": "call", "h": "p", "m": "set_seq", "args": {"seq": rec["seq"]}, "signer": own, "obs": "full"},
                 {"op": "clone", "h": "p2", "from": "a"},
                 {"op": "call", "h": "p2", "m": "insert", "args": {"key": [], "val": {"ty": "bytes", "v": [2]}}, "signer": own},
                 {"op": "call", "h": "p2", "m": "set_seq", "args": {"seq": rec["seq"]}, "signer": own, "obs": "full"}]
        # a raw value that is a list followed by a key/value pair sorting right behind its carrier key: must be refused;
        # if it were stored, the record and its re-decoding would be "equal" with different pairs
        if not any(bytes(k) in (b"ip", b"idx", b"ie") for k, _ in rec["pairs"]):
            smug = [0xc0] + enc_str(B("ip")) + enc_str([10, 0, 0, 1])
            steps += [{"op": "clone", "h": "m", "from": "a"},
                      {"op": "call", "h": "m", "m": "insert_raw_rlp", "args": {"key": B("idx"), "raw": smug}, "signer": own, "obs": "full"},
                      {"op": "decode", "h": "m2", "kt": kt, "input": {"from": "m"}, "tag": "eq_redecode_smuggled", "obs": "full"},
                      {"op": "compare", "a": "m", "b": "m2"}]
        # failing updates made with ANOTHER key must leave the record equal to its clone in every respect:
        # a record at the 300-byte limit whose sequence number cannot grow, and (traced key types) a signer fault
        big = pad_to(rng, [1], [p for p in rec["pairs"] if bytes(p[0]) != b"zpad"], 300)
        if big:
            steps += [{"op": "decode", "h": "f", "kt": kt, "input": {"rec": {"seq": [1], "pairs": big, "sig": {"by": own}}}, "tag": "eq_full_record"},
                      {"op": "clone", "h": "fc", "from": "f"},
                      {"op": "call", "h": "f", "m": "set_seq", "args": {"seq": [255] * 8}, "signer": other},
                      {"op": "compare", "a": "f", "b": "fc"},
                      {"op": "call", "h": "f", "m": "insert", "args": {"key": B("q"), "val": {"ty": "bytes", "v": [1, 2, 3]}}, "signer": other},
                      {"op": "compare", "a": "f", "b": "fc"},
                      {"op": "call", "h": "f", "m": "set_udp_socket", "args": {"ip": [0] * 15 + [1], "port": 9}, "signer": other},
                      {"op": "compare", "a": "f", "b": "fc"}]
        hs = ["a", "c", "d", "s", "e1", "e2", "q", "k", "i", "p", "p2"]
        for x in hs:
            for y in hs:
                if x <= y:
                    steps.append({"op": "compare", "a": x, "b": y})
        out.append({"sid": sid(), "steps": steps})
    # same sequence number, DIFFERENT pairs whose concatenated key / value bytes coincide (a key/value boundary moved, a
    # one-byte value continuing a key, a value split over two pairs): content comparison must see the difference
    fams = [
        ([("a", "b"), ("cd", [5])], [("ab", "c"), ("d", [5])]),
        ([("a", "b"), ("c", "d")], [("abc", "d")]),
        ([("k", "xy")], [("kx", "y")]),
        ([("m", "n"), ("o", "p")], [("m", "nop")]),
        ([("t", [1]), ("u", [2])], [("t", [1, 0x75, 2])]),
        ([("q", "")], [("q", [0x80])]),
    ]
    steps = []
    for kt in kts:
        own = signers_for(kt)[0]
        basep = [[B("id"), enc_str(B("v4"))], [B(pk_key(own)), enc_str(KEYS[own]["pk"])]]
        for fi, (pa, pb) in enumerate(fams):
            def mk(ps):
                return sorted(basep + [[B(k), enc_str(B(v) if isinstance(v, str) else v)] for k, v in ps], key=lambda p: bytes(p[0]))
            steps.append({"op": "decode", "h": "x", "kt": kt, "input": {"rec": {"seq": [7], "pairs": mk(pa), "sig": {"by": own}}}, "tag": "eq_boundary_shift"})
            steps.append({"op": "decode", "h": "y", "kt": kt, "input": {"rec": {"seq": [7], "pairs": mk(pb), "sig": {"by": own}}}, "tag": "eq_boundary_shift"})
            steps.append({"op": "compare", "a": "x", "b": "y"})
            steps.append({"op": "compare", "a": "y", "b": "x"})
        # the elements of a decoded Vec<Enr> equal the records decoded one by one
        l1 = {"rec": {"seq": [7], "pairs": sorted(basep + [[B("a"), enc_str(B("b"))]], key=lambda p: bytes(p[0])), "sig": {"by": own}}}
        l2 = {"rec": {"seq": [8], "pairs": sorted(basep, key=lambda p: bytes(p[0])), "sig": {"by": own}}}
        steps.append({"op": "decode_list", "kt": kt, "input": {"list": [l1, l2, l1]}, "tag": "list_valid_3"})
        steps.append({"op": "encode_list", "hs": ["x", "y", "x"]})
    out.append({"sid": sid(), "steps": steps})
    return out


# ---------------------------------------------------------------- C11: cross back-end agreement
def gen_eq_fault(rng, n):
    """failing updates (injected signer fault) with another key, then comparison with a clone taken before"""
    sid = Sid("eqf")
    out = []
    for i in range(n):
        kt = ["wk256", "wed", "wcomb", "wlibsecp"][i % 4]
        sigs = [x for x in signers_for(kt)]
        own = rng.choice(sigs)
        other = rng.choice([x for x in sigs if scheme_of(x) == scheme_of(own) and x != own])
        steps = [{"op": "build", "h": "a", "kt": kt, "signer": own, "calls": builder_calls(rng, hard=False)},
                 {"op": "clone", "h": "c", "from": "a"}]
        for _ in range(4):
            c, _s = rand_call(rng, kt, other, [], hard=False)
            c["h"] = "a"
            c["fault"] = 1
            steps.append(c)
            steps.append({"op": "compare", "a": "a", "b": "c"})
        out.append({"sid": sid(), "steps": steps})
    return out


def gen_cross(rng, n):
    """records built / updated through each back-end, re-decoded under every key type"""
    sid = Sid("cross")
    out = []
    for i in range(n):
        for kt in KT_ALL:
            own = rng.choice(signers_for(kt))
            steps = [{"op": "build", "h": "r", "kt": kt, "signer": own, "calls": builder_calls(rng, hard=False)},
                     {"op": "decode", "kts": KT_ALL, "input": {"from": "r"}, "tag": "cross_built_" + kt}]
            for _ in range(4):
                c, _s = rand_call(rng, kt, own, [], hard=False)
                steps.append(c)
                steps.append({"op": "decode", "kts": KT_ALL, "input": {"from": "r"}, "tag": "cross_updated_" + kt})
            out.append({"sid": sid(), "steps": steps})
    return out


# ---------------------------------------------------------------- failing updates, systematically (C04 C05 C06 C12 C15)
def gen_fail(rng, obs="full", part=None):
    """every mutator x key type x way of failing (sequence number at its maximum, signer fault, a signer the record's
    other key entry shadows, size), with the record's own key and with another one; the record is observed before,
    compared with a clone afterwards, observed again, and then updated successfully once more.
    part = (i, n): only every n-th combination starting at i (quick tier)."""
    sid = Sid("fail")
    U64MAX = [255] * 8
    calls = list(ALL_SIMPLE_CALLS) + [
        ("set_seq", lambda rng: {"seq": [5]}), ("set_seq", lambda rng: {"seq": []}), ("set_seq", lambda rng: {"seq": [255] * 8}),
        ("insert", lambda rng: {"key": B("big"), "val": {"ty": "bytes", "v": [3] * 120}}),
        ("insert_raw_rlp", lambda rng: {"key": B("tcp"), "raw": [0x82, 0x00, 0x50]}),          # ill-typed reserved value
        ("remove_insert", lambda rng: {"remove": [B("udp")], "insert": [[B("aa"), [1]], [B("tcp6"), [0, 1, 2]]]}),   # valid pair, then an ill-typed one
        ("remove_key", lambda rng: {"key": B("id")}),
        ("set_client_info", lambda rng: {"name": B("n"), "version": B("v"), "build": [[]]}),
        ("set_client_info", lambda rng: {"name": B("a-client-name-that-is-far-too-long-to-fit-" * 6), "version": B("v1"), "build": []}),
        ("set_ip", lambda rng: {"ip": [0x20, 1] + [0] * 13 + [7]}),
        ("insert", lambda rng: {"key": B("ip"), "val": {"ty": "bytes", "v": [0x20, 1] + [0] * 13 + [7]}}),      # 16 bytes under ip
        ("insert", lambda rng: {"key": B("ip6"), "val": {"ty": "bytes", "v": [10, 0, 0, 3]}}),                   # 4 bytes under ip6
        ("insert_raw_rlp", lambda rng: {"key": B("ip"), "raw": enc_str([0] * 16)}),
        ("remove_insert", lambda rng: {"remove": [], "insert": [[B("ip6"), [1, 2, 3, 4]]]}),
    ]
    combos = []
    for kt, own in [("k256", "k1"), ("libsecp", "k2"), ("ed", "e1"), ("comb", "k1"), ("comb", "e1"), ("wk256", "k1"), ("wed", "e2"), ("wcomb", "k4"), ("wcomb", "e1")]:
        others = [x for x in signers_for(kt) if x != own]
        same = [x for x in others if scheme_of(x) == scheme_of(own)][0]
        cross = [x for x in others if scheme_of(x) != scheme_of(own)][:1]
        modes = [("seqmax", own), ("seqmax", same), ("size", own), ("size", same)]
        modes += [("seqmax", c) for c in cross] + [("shadow", c) for c in cross] + [("size", c) for c in cross]
        if kt.startswith("w"):
            modes += [("fault", own), ("fault", same)] + [("fault", c) for c in cross]
        for mode, signer in modes:
            for ci in range(len(calls)):
                combos.append((kt, own, mode, signer, ci))
    if part is not None:
        combos = [c for j, c in enumerate(combos) if (j + j // len(calls)) % part[1] == part[0] % part[1]]
    out = []
    for kt, own, mode, signer, ci in combos:
        m, mk = calls[ci]
        a = mk(rng)
        if a.get("pk_of") == "OWN":
            a["pk_of"] = signer
        base = [[B("id"), enc_str(B("v4"))], [B(pk_key(own)), enc_str(KEYS[own]["pk"])], [B("ip"), enc_str([10, 0, 0, 9])],
                [B("udp"), enc_uint(1)], [B("tcp"), enc_uint(65535)], [B("client"), enc_list([enc_str(B("c")), enc_str(B("1"))])]]
        # half-present sockets: an ip6 without ports / a udp6 port without address / no tcp next to ip + udp
        half = (ci + len(mode)) % 4
        if half == 1:
            base.append([B("ip6"), enc_str([0xfe, 0x80] + [0] * 13 + [9])])
        elif half == 2:
            base.append([B("udp6"), enc_uint(30303)])
        elif half == 3:
            base = [p for p in base if bytes(p[0]) != b"tcp"]
        seq = U64MAX if mode == "seqmax" else [rng.choice([1, 127, 255])]
        if mode == "size":
            base = pad_to(rng, seq, sorted(base, key=lambda p: bytes(p[0])), rng.choice([298, 299, 300]), key="zpad") or base
        pairs = sorted(base, key=lambda p: bytes(p[0]))
        call = {"op": "call", "h": "r", "m": m, "args": a, "signer": signer, "obs": obs}
        if mode == "fault":
            call["fault"] = 1
        steps = [{"op": "decode", "h": "r", "kt": kt, "input": {"rec": {"seq": seq, "pairs": pairs, "sig": {"by": own}}}, "tag": "fail_" + mode, "obs": obs},
                 {"op": "clone", "h": "c", "from": "r"}, call, {"op": "compare", "a": "r", "b": "c"},
                 {"op": "call", "h": "r", "m": "set_seq", "args": {"seq": [9]}, "signer": own, "obs": obs},
                 {"op": "call", "h": "r", "m": "set_udp4", "args": {"port": 7}, "signer": own, "obs": obs}]
        out.append({"sid": sid(), "steps": steps})
    return out


# ---------------------------------------------------------------- C10: node ids of edge-case keys
def gen_nid(rng, n_random):
    sid = Sid("nid")
    N = 0xFFFFFFFFFFFFFFFFFFFFFFFFFFFFFFFEBAAEDCE6AF48A03BBFD25E8CD0364141
    scal = [1, N - 1, 2, N - 2, 3, N - 3, 2 ** 255, N - 2 ** 255, 2 ** 128, N // 2, N // 2 + 1]       # d directly followed by n - d (same x, other y)
    for _ in range(n_random):
        d = rng.randrange(1, N)
        scal += [d, N - d] if rng.random() < 0.3 else [d]
    # keys whose x coordinate starts with 00 / 02 / 03 / 04 / 06 / 07 / ff (bytes that look like SEC1 tags or padding)
    scal += [int(h, 16) for h in KEYS.get("special_x", {}).values()]
    out = []
    steps = []
    for v in scal:
        name = "k:" + v.to_bytes(32, "big").hex()
        for kt in ("k256", "libsecp", "comb"):
            steps.append({"op": "build", "h": "r", "kt": kt, "signer": name, "calls": [{"m": "udp4", "port": rng.randrange(65536)}]})
            steps.append({"op": "call", "h": "r", "m": "set_tcp4", "args": {"port": 1}, "signer": name})
            steps.append({"op": "decode", "kts": KT_ALL, "input": {"from": "r"}, "tag": "nid_edge"})
    # records that carry both kinds of key entry: the id is that of the key the record is signed with (secp256k1 first)
    for i, v in enumerate(scal[:12]):
        name = "k:" + v.to_bytes(32, "big").hex()
        other = KEYS[ED_SIGNERS[i % len(ED_SIGNERS)]]["pk"]
        for kt in ("k256", "libsecp", "comb"):
            steps.append({"op": "build", "h": "r", "kt": kt, "signer": name, "calls": [{"m": "add_value", "key": B("ed25519"), "val": {"ty": "bytes", "v": other}}]})
            steps.append({"op": "decode", "kts": KT_ALL, "input": {"from": "r"}, "tag": "nid_both"})
            steps.append({"op": "call", "h": "r", "m": "set_udp4", "args": {"port": 2}, "signer": name})
            steps.append({"op": "decode", "kts": KT_ALL, "input": {"from": "r"}, "tag": "nid_both"})
    # one builder, two keys: a record built with key A, then the builder is given key B's entry and builds with B; and
    # records of different keys refreshed from one another (clone_from, in the compare event)
    for kt, a, b in [("k256", "k1", "k4"), ("libsecp", "k2", "k3"), ("comb", "k4", "k1"), ("ed", "e1", "e2"), ("comb", "e2", "e1")]:
        entry = {"m": "add_value", "key": B(pk_key(b)), "val": {"ty": "bytes", "v": KEYS[b]["pk"]}}
        steps.append({"op": "build", "h": "p", "kt": kt, "signer": b, "first_signer": a, "rebuild": True, "obs": "full",
                      "calls": [{"m": "udp4", "port": 4}], "calls2": [entry]})
        steps.append({"op": "build", "h": "q", "kt": kt, "signer": a, "calls": [{"m": "udp4", "port": 4}]})
        steps.append({"op": "build", "h": "p2", "kt": kt, "signer": b, "first_signer": a, "rebuild": True, "calls": [{"m": "tcp4", "port": 5}], "calls2": []})
        steps.append({"op": "compare", "a": "p", "b": "q"})
        steps.append({"op": "compare", "a": "q", "b": "p2"})
    # ed25519 keys in non-canonical encodings (the neutral element with the x sign bit set / y = p + 1 / both) under the
    # trivial signature: where the back-end accepts them, the id is the hash of the 32 bytes AS STORED
    ident = [1] + [0] * 31
    for enc in ([1] + [0] * 30 + [0x80], [0xee] + [0xff] * 30 + [0x7f], [0xee] + [0xff] * 31, ident, [0] * 32, [0xec] + [0xff] * 30 + [0x7f]):
        for extra in ([], [[B("udp"), enc_uint(9)]]):
            pairs = sorted([[B("id"), enc_str(B("v4"))], [B("ed25519"), enc_str(enc)]] + extra, key=lambda p: bytes(p[0]))
            steps.append({"op": "decode", "kts": KT_ALL, "input": {"rec": {"seq": [1], "pairs": pairs, "sig": {"raw": ident + [0] * 32}}}, "tag": "nid_ed_noncanonical"})
        steps.append({"op": "decpub", "bytes": enc})
    for _ in range(n_random):
        name = "e:" + bytes(rand_bytes(rng, 32)).hex()
        for kt in ("ed", "comb"):
            steps.append({"op": "build", "h": "r", "kt": kt, "signer": name, "calls": [{"m": "udp4", "port": rng.randrange(65536)}]})
            steps.append({"op": "call", "h": "r", "m": "set_tcp4", "args": {"port": 1}, "signer": name})
            steps.append({"op": "decode", "kts": KT_ALL, "input": {"from": "r"}, "tag": "nid_edge"})
    out.append({"sid": sid(), "steps": steps})
    return out


# ---------------------------------------------------------------- further API surface
def gen_api(rng, n):
    """Vec<Enr> as a value, the key traits of every key type, key generation, Enr::empty"""
    sid = Sid("api")
    steps = []
    for kt in ["k256", "libsecp", "ed", "comb", "wk256", "wed", "var"]:
        for signer in signers_for(kt):
            if kt == "var" and scheme_of(signer) != "secp":
                continue
            for _ in range(max(1, n // 8)):
                steps.append({"op": "pubkey", "kt": kt, "signer": signer, "probe": rand_bytes(rng, rng.choice([0, 1, 32, 100, 300]))})
            steps.append({"op": "build", "h": "e", "kt": kt, "signer": signer, "empty": True, "calls": [], "obs": "full"})
    # the builder with a malformed or ill-typed raw value under every reserved key (incl. the public-key key of the OTHER
    # scheme, which the builder does not overwrite), each record fully observed if the builder hands one out
    bsteps = []
    for kt, own in [("k256", "k1"), ("libsecp", "k2"), ("ed", "e1"), ("comb", "k1"), ("comb", "e1")]:
        for key in ["secp256k1", "ed25519", "id", "ip", "ip6", "tcp", "udp6", "client"]:
            for raw in [[0xb8], [0x81], [], [0x81, 0x05], [0x83, 1, 2], [0xc1], [0x05, 0x06], [0xb8, 0x01, 0x41]]:
                bsteps.append({"op": "build", "h": "m", "kt": kt, "signer": own, "obs": "full",
                               "calls": [{"m": "udp4", "port": 9}, {"m": "add_value_rlp", "key": B(key), "raw": raw}]})
    # the public-key parsers on valid keys, near-valid keys and junk of every length
    P = 0xFFFFFFFFFFFFFFFFFFFFFFFFFFFFFFFFFFFFFFFFFFFFFFFFFFFFFFFEFFFFFC2F
    cand = [KEYS[k]["pk"] for k in ("k1", "k2", "k3", "k4", "e1", "e2")] + [[5] + KEYS[k]["pk"][1:] for k in ("k1", "k4")]
    cand += [[4] + KEYS["k1"]["xy"], KEYS["k1"]["xy"], [6 + (KEYS["k1"]["xy"][63] & 1)] + KEYS["k1"]["xy"], [2] + [0] * 32, [3] + [0] * 32, [2] + [255] * 32,
             [2] + list(P.to_bytes(32, "big")), [2] + list((P - 1).to_bytes(32, "big")), [0] * 33, [0], [], [1] + [0] * 31, [0] * 32, [255] * 32,
             [5] + KEYS["k1"]["pk"][1:], KEYS["k1"]["pk"][:32], KEYS["k1"]["pk"] + [0], KEYS["e1"]["pk"][:31], KEYS["e1"]["pk"] + [0]]
    for _ in range(n * 3):
        cand.append([rng.choice([2, 3])] + rand_bytes(rng, 32))
        cand.append(rand_bytes(rng, 32))
    for ln in range(0, 70, 3):
        cand.append(rand_bytes(rng, ln))
    for b in cand:
        steps.append({"op": "decpub", "bytes": b})
    # the verification primitive on valid and tampered (message, signature) pairs
    for signer in SECP_SIGNERS + ED_SIGNERS:
        msg = rand_bytes(rng, rng.choice([0, 1, 31, 32, 33, 150, 300]))
        variants = [{}, {"tweak": "flip", "bit": rng.randrange(512)}, {"len": 63}, {"len": 65}, {"len": 0}, {"len": 128}, {"raw": rand_bytes(rng, 64)},
                    {"over": rand_bytes(rng, 20)}, {"raw": [0] * 64}, {"raw": [255] * 64}]
        if scheme_of(signer) == "secp":
            variants += [{"tweak": "highs"}, {"tweak": "zero_r"}, {"tweak": "zero_s"}, {"der": True}, {"lpad": 1}, {"rpad": 1}, {"drop": 0}]
        for v in variants:
            steps.append({"op": "verifyraw", "signer": signer, "msg": msg, "sig": v})
    for _ in range(n):
        steps.append({"op": "keygen", "scheme": "secp"})
        steps.append({"op": "keygen", "scheme": "ed"})
    out = [{"sid": sid(), "steps": steps}, {"sid": sid(), "steps": bsteps}]
    for i in range(n):
        kt = KT_ALL[i % 4]
        sigs = signers_for(kt)
        k = rng.randrange(1, 6)
        steps = []
        hs = []
        for j in range(k):
            h = "l%d" % j
            hs.append(h)
            steps.append({"op": "decode", "h": h, "kt": kt, "input": recspec(rand_record(rng, signer=rng.choice(sigs))), "tag": "api_list"})
        steps.append({"op": "encode_list", "hs": hs})
        out.append({"sid": sid(), "steps": steps})
    return out


def gen_huge(rng):
    """oversized and deeply nested values through the generic entry points: must be refused with an error value"""
    sid = Sid("huge")
    steps = []
    for kt in ["k256", "ed"]:
        own = signers_for(kt)[0]
        steps.append({"op": "build", "h": "r", "kt": kt, "signer": own, "calls": [{"m": "udp4", "port": 1}]})
        for depth in [40, 1000, 300000]:
            steps.append({"op": "call", "h": "r", "m": "insert_raw_rlp", "signer": own, "args": {"key": B("deep"), "raw": {"nest": {"depth": depth, "core": [1]}}}})
        steps.append({"op": "call", "h": "r", "m": "insert", "signer": own, "args": {"key": B("big"), "val": {"ty": "bytes", "v": [7] * 70000}}})
        steps.append({"op": "call", "h": "r", "m": "remove_insert", "signer": own, "args": {"remove": [], "insert": [[B("big"), [7] * 70000]]}})
    return [{"sid": sid(), "steps": steps}]


# ---------------------------------------------------------------- C09 (and C04/C05/C06/C08): exact aiming at the limit
def _inc_be(seq):
    n = int.from_bytes(bytes(seq), "big") + 1
    return be(n)


def _put(pairs, k, v):
    d = {bytes(p[0]): p[1] for p in pairs}
    d[bytes(k)] = v
    return [[list(k2), d[k2]] for k2 in sorted(d)]


def _del(pairs, k):
    return [p for p in pairs if bytes(p[0]) != bytes(k)]


def _apply_py(pairs, seq, m, a):
    """driver-side prediction of the candidate of a simple update (only used to AIM at a result size)"""
    nseq = _inc_be(seq)
    if m == "set_seq":
        return pairs, [b for b in a["seq"]]
    if m in ("set_tcp4", "set_tcp6", "set_udp4", "set_udp6"):
        k = {"set_tcp4": "tcp", "set_tcp6": "tcp6", "set_udp4": "udp", "set_udp6": "udp6"}[m]
        return _put(pairs, B(k), enc_uint(a["port"])), nseq
    if m == "set_ip":
        return _put(pairs, B("ip" if len(a["ip"]) == 4 else "ip6"), enc_str(a["ip"])), nseq
    if m == "insert":
        return _put(pairs, a["key"], enc_str(a["val"]["v"])), nseq
    if m == "insert_raw_rlp":
        return _put(pairs, a["key"], a["raw"]), nseq
    if m in ("set_udp_socket", "set_tcp_socket"):
        v6 = len(a["ip"]) == 16
        pk = ("udp" if m == "set_udp_socket" else "tcp") + ("6" if v6 else "")
        return _put(_put(pairs, B("ip6" if v6 else "ip"), enc_str(a["ip"])), B(pk), enc_uint(a["port"])), nseq
    if m == "set_client_info":
        items = [enc_str(a["name"]), enc_str(a["version"])] + ([enc_str(a["build"][0])] if a["build"] else [])
        return _put(pairs, B("client"), enc_list(items)), nseq
    if m == "remove_insert":
        ps = pairs
        for k in a["remove"]:
            ps = _del(ps, k)
        for k, v in a["insert"]:
            ps = _put(ps, k, enc_str(v))
        return ps, nseq
    if m in ("remove_key",):
        return _del(pairs, a["key"]), nseq
    if m in ("remove_udp4",):
        return _del(pairs, B("udp")), nseq
    if m in ("remove_tcp_socket",):
        return _del(_del(pairs, B("ip")), B("tcp")), nseq
    if m == "set_public_key":
        return pairs, nseq
    raise KeyError(m)


def gen_size_exact(rng, kts=("k256", "libsecp", "ed", "comb"), targets=range(296, 305), seqs=None, obs="core", per_kt=None):
    """for every mutator, every sequence-number class and every result size around the limit: a pre-state whose
    filler is chosen so that the RESULT of the update has exactly that size"""
    sid = Sid("sizex")
    seqs = seqs or [[1], [127], [255], [255, 255], [255, 255, 255], [255] * 7]
    calls = [
        ("set_tcp4", {"port": 30303}), ("set_udp6", {"port": 0}), ("set_tcp6", {"port": 65535}), ("set_udp4", {"port": 127}),
        ("set_ip", {"ip": [10, 0, 0, 1]}), ("set_ip", {"ip": [0] * 15 + [1]}),
        ("insert", {"key": B("y"), "val": {"ty": "bytes", "v": [5] * 9}}), ("insert_raw_rlp", {"key": B("yy"), "raw": enc_list([enc_str([1]), enc_str([])])}),
        ("set_udp_socket", {"ip": [10, 0, 0, 2], "port": 9000}), ("set_udp_socket", {"ip": [0xfe, 0x80] + [0] * 13 + [2], "port": 9000}),
        ("set_tcp_socket", {"ip": [10, 0, 0, 2], "port": 80}), ("set_tcp_socket", {"ip": [0x20, 1] + [0] * 13 + [3], "port": 65535}),
        ("set_client_info", {"name": B("geth"), "version": B("1.2.3"), "build": []}),
        ("remove_insert", {"remove": [B("udp")], "insert": [[B("w"), [7] * 11]]}),
        ("remove_insert", {"remove": [], "insert": [[B("dup"), [7] * 40], [B("dup"), [7]]]}),
        ("remove_key", {"key": B("nothing")}), ("remove_udp4", {}), ("remove_tcp_socket", {}),
        ("set_seq", {"seq": [255] * 8}), ("set_seq", {"seq": [1, 0]}), ("set_public_key", {"pk_of": "OWN"}),
    ]
    out = []
    for kt in kts:
        own = signers_for(kt)[0]
        base = sorted([[B("id"), enc_str(B("v4"))], [B(pk_key(own)), enc_str(KEYS[own]["pk"])],
                       [B("ip"), enc_str([10, 0, 0, 9])], [B("udp"), enc_uint(1)], [B("tcp"), enc_uint(65535)]], key=lambda p: bytes(p[0]))
        steps = []
        combos = [(m, a, sq, t) for (m, a) in calls for sq in seqs for t in targets]
        if per_kt is not None and len(combos) > per_kt:
            combos = rng.sample(combos, per_kt)
        # always: one large pair inserted into a minimal record so that the result has exactly the target size
        small = sorted([[B("id"), enc_str(B("v4"))], [B(pk_key(own)), enc_str(KEYS[own]["pk"])]], key=lambda p: bytes(p[0]))
        for m in ("insert", "insert_raw_rlp"):
            for sq in ([1], [127]):
                for target in targets:
                    for n in range(100, 240):
                        a2 = {"key": B("y"), "val": {"ty": "bytes", "v": [0xBB] * n}} if m == "insert" else {"key": B("y"), "raw": enc_str([0xBB] * n)}
                        post, nseq = _apply_py(small, sq, m, a2)
                        if rec_len(nseq, post) == target:
                            steps.append({"op": "decode", "h": "r", "kt": kt, "input": {"rec": {"seq": sq, "pairs": small, "sig": {"by": own}}}, "tag": "sizex_fill_%d" % target})
                            steps.append({"op": "call", "h": "r", "m": m, "args": a2, "signer": own, "obs": obs})
                            break
        # always: the builder aimed at every result size around the limit (filler chosen so that the built record -- id,
        # the signer's key, an address, the filler -- has exactly the target size), also built twice from one builder
        for sq in ([1], [127], [255, 255], [1, 0x8b, 0xd0, 0x38, 0x44, 0x00], [255] * 8):
            for target in targets:
                for n in range(100, 260):
                    ps = sorted(small + [[B("ip"), enc_str([10, 0, 0, 1])], [B("zpad"), enc_str([0xCC] * n)]], key=lambda p: bytes(p[0]))
                    if rec_len(sq, ps) == target:
                        steps.append({"op": "build", "h": "b", "kt": kt, "signer": own, "obs": obs, "rebuild": target % 2 == 0, "calls2": [],
                                      "calls": [{"m": "seq", "seq": sq}, {"m": "ip4", "ip": [10, 0, 0, 1]},
                                                {"m": "add_value", "key": B("zpad"), "val": {"ty": "bytes", "v": [0xCC] * n}}]})
                        break
        for m, a, sq, target in combos:
            a = dict(a)
            if a.get("pk_of") == "OWN":
                a["pk_of"] = own
            hit = None
            if m in ("insert", "insert_raw_rlp") and a["key"] in (B("y"), B("yy")) and rng.random() < 0.5:
                # variant: a small record, and the inserted value itself brings it to the target size
                small = sorted([[B("id"), enc_str(B("v4"))], [B(pk_key(own)), enc_str(KEYS[own]["pk"])]], key=lambda p: bytes(p[0]))
                for n in range(100, 240):
                    a2 = dict(a)
                    if m == "insert":
                        a2["val"] = {"ty": "bytes", "v": [0xBB] * n}
                    else:
                        a2["raw"] = enc_str([0xBB] * n)
                    post, nseq = _apply_py(small, sq, m, a2)
                    if rec_len(nseq, post) == target:
                        steps.append({"op": "decode", "h": "r", "kt": kt, "input": {"rec": {"seq": sq, "pairs": small, "sig": {"by": own}}}, "tag": "sizex_fill_%d" % target})
                        steps.append({"op": "call", "h": "r", "m": m, "args": a2, "signer": own, "obs": obs})
                        break
                continue
            # every third combination carries a key of 56+ bytes (two-byte string header for a KEY)
            base2 = base + ([[B("k" * 57), enc_str([1])]] if (len(steps) // 2) % 3 == 1 else [])
            for n in range(0, 230):
                pre = sorted(base2 + [[B("zpad"), enc_str([0xAA] * n)]], key=lambda p: bytes(p[0]))
                if rec_len(sq, pre) > 300:
                    break
                post, nseq = _apply_py(pre, sq, m, a)
                if rec_len(nseq, post) == target:
                    hit = pre
                    break
            if hit is None:
                continue
            steps.append({"op": "decode", "h": "r", "kt": kt, "input": {"rec": {"seq": sq, "pairs": hit, "sig": {"by": own}}}, "tag": "sizex_%d" % target})
            steps.append({"op": "call", "h": "r", "m": m, "args": a, "signer": own, "obs": obs})
            if len(steps) >= 400:
                out.append({"sid": sid(), "steps": steps})
                steps = []
        if steps:
            out.append({"sid": sid(), "steps": steps})
    return out


def gen_text_stale(rng, n):
    """text forms after histories in which the text was NOT asked for at every step: observed fully only at the
    first and the last step, with the sequence number brought back to an earlier value in between"""
    sid = Sid("stale")
    out = []
    for i in range(n):
        kt = ["k256", "libsecp", "ed", "comb"][i % 4]
        sigs = signers_for(kt)
        own = rng.choice(sigs)
        other = rng.choice([x for x in sigs if scheme_of(x) == scheme_of(own) and x != own])
        seq0 = rng.choice([[1], [7], [127], [255], [1, 0]])
        steps = [{"op": "build", "h": "r", "kt": kt, "signer": own, "obs": "full", "calls": [{"m": "seq", "seq": seq0}, {"m": "udp4", "port": 30303}]}]
        variant = i % 3
        if variant == 0:
            steps += [{"op": "call", "h": "r", "m": "set_tcp4", "args": {"port": rng.randrange(65536)}, "signer": own},
                      {"op": "call", "h": "r", "m": "set_seq", "args": {"seq": seq0}, "signer": own, "obs": "full"}]
        elif variant == 1:
            steps += [{"op": "call", "h": "r", "m": "set_seq", "args": {"seq": seq0}, "signer": other, "obs": "full"}]
        else:
            steps += [{"op": "clone", "h": "c", "from": "r"},
                      {"op": "call", "h": "c", "m": "insert", "args": {"key": B("k"), "val": {"ty": "bytes", "v": [1]}}, "signer": own},
                      {"op": "call", "h": "c", "m": "remove_key", "args": {"key": B("udp")}, "signer": own},
                      {"op": "call", "h": "c", "m": "set_seq", "args": {"seq": seq0}, "signer": own, "obs": "full"},
                      {"op": "compare", "a": "r", "b": "c"}]
        out.append({"sid": sid(), "steps": steps})
    return out
