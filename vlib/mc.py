"""Bounded TLC models (filled in below)."""
MODELS = {}
