"""Bounded TLC models: exhaustive exploration of small instances of the specification, and the
spec -> impl direction (every model transition / decoder-input shape is printed by TLC and turned into
a script for the harness)."""
import json, os, hashlib, random
from . import run, gen
from .run import log, ToolError

SPEC = run.SPEC


def write_cfg(name, text):
    p = os.path.join(run.WORK, name)
    os.makedirs(run.WORK, exist_ok=True)
    # TLC wants the cfg next to (or addressed relative to) the module; use an absolute path
    with open(p, "w") as f:
        f.write(text)
    return p


def pick(lines, limit, seed):
    """deterministic sample of at most `limit` items"""
    if limit is None or len(lines) <= limit:
        return lines
    rng = random.Random(seed)
    return rng.sample(lines, limit)


# ------------------------------------------------------------------------------------------ MC_Hist
HIST_CFG = """SPECIFICATION Spec
CONSTANTS
  MaxDepth = %(depth)d
  KT = "%(kt)s"
  Dev = "%(dev)s"
  Emit = %(emit)s
VIEW View
INVARIANTS InvValid InvSize InvNid InvEq InvTotal
ACTION_CONSTRAINTS ActProps EmitT
CHECK_DEADLOCK FALSE
"""


def hist_scripts(lines, kt_model, limit, seed):
    """one script per distinct (state, call): construct the state by decoding an independently signed record,
    then make the call -- under every key type that can hold the record"""
    seen, uniq = set(), []
    for l in lines:
        body = l[2:] if l.startswith("T ") else l
        if body in seen:
            continue
        seen.add(body)
        uniq.append(body)
    # transitions that involve a key of the other scheme are few and always replayed
    crossy = [u for u in uniq if '"cross"' in u]
    uniq = crossy + pick([u for u in uniq if '"cross"' not in u], None if limit is None else max(0, limit - len(crossy)), seed)
    own, other, cross = {"k256": ("k1", "k2", "e2"), "ed": ("e1", "e2", "k3"),
                         "comb_secp": ("k1", "k2", "e2"), "comb_ed": ("e1", "e2", "k3")}[kt_model]
    kts = {"k256": ["k256", "libsecp", "comb", "wk256"], "ed": ["ed", "comb", "wed"],
           "comb_secp": ["comb", "wcomb"], "comb_ed": ["comb", "wcomb"]}[kt_model]
    name = {"own": own, "other": other, "cross": cross}
    scripts = []
    for n, body in enumerate(uniq):
        t = json.loads(body)
        c = t["call"]
        args = dict(c["args"])
        if "pk_of" in args:
            args["pk_of"] = name[args["pk_of"]]
        fault = c["fault"]
        steps = []
        for kt in kts:
            if fault and not kt.startswith("w"):
                continue
            h = "r_" + kt
            steps.append({"op": "decode", "h": h, "kt": kt, "tag": "mc_pre",
                          "input": {"rec": {"seq": t["seq"], "pairs": t["pairs"], "sig": {"by": t["by"]}}}})
            steps.append({"op": "call", "h": h, "m": c["m"], "args": args, "signer": name[c["signer"]], "fault": fault,
                          "obs": "full" if (n % 7 == 0 or '"cross"' in body) else "core"})
        scripts.append({"sid": "mch-%s-%d" % (kt_model, n), "steps": steps})
    return scripts, len(uniq), len(seen)


def model_hist(kt, depth, limit, seed, wd, dev="none", emit=True):
    cfg = write_cfg("MC_Hist_%s_%s_%d.cfg" % (kt, dev, depth), HIST_CFG % {"depth": depth, "kt": kt, "dev": dev, "emit": "TRUE" if emit else "FALSE"})
    res = run.tlc_model(cfg, "MC_Hist.tla", os.path.join(wd, "mc_hist_%s_%d" % (kt, depth)), workers=8 if depth < 3 else 14,
                        capture_prefixes=("T ",), timeout=5400)
    stats = {"name": "MC_Hist[%s]" % kt, "states": res["states"], "transitions": res["transitions"], "ok": res["ok"],
             "wall_s": round(res["wall_s"], 1), "constants": {"MaxDepth": depth, "KT": kt, "Dev": dev},
             "tail": "\n".join(res["out"].splitlines()[-25:]) if not res["ok"] else ""}
    scripts, used, total = hist_scripts(res["captured"], kt, limit, seed) if emit else ([], 0, 0)
    stats["transitions_emitted"] = total
    stats["transitions_replayed"] = used
    return {"stats": stats, "scripts": scripts}


# ------------------------------------------------------------------------------------------ MC_Gen
GEN_CFG = """SPECIFICATION Spec
CONSTANTS
  MaxPairs = %(pairs)d
  Classes = {%(classes)s}
  Scheme = "%(scheme)s"
  Emit = %(emit)s
INVARIANT ShapeProps
ACTION_CONSTRAINT EmitShape
CHECK_DEADLOCK FALSE
"""
ALL_CLASSES = list(range(1, 24))
CORE_CLASSES = [1, 2, 3, 4, 7, 8, 12, 13, 14, 15, 18, 22, 23]


def shape_scripts(lines, limit, seed, tagp):
    uniq = list(dict.fromkeys(l[6:] if l.startswith("SHAPE ") else l for l in lines))
    total = len(uniq)
    # every shape that is valid by construction is replayed; the (far more numerous) invalid ones are sampled
    valid = [u for u in uniq if '"valid":true' in u]
    rest = [u for u in uniq if '"valid":true' not in u]
    uniq = valid + pick(rest, None if limit is None else max(0, limit - len(valid)), seed)
    scripts, steps = [], []
    for n, body in enumerate(uniq):
        t = json.loads(body)
        sig = {"by": t["by"]}
        if t["sigc"] == "wrong_key":
            sig = {"by": "k2" if t["by"] == "k1" else "e2"}
        elif t["sigc"] == "other_content":
            sig = {"by": t["by"], "over": t["items"] + [{"s": [1]}]}
        elif t["sigc"] == "len63":
            sig = {"by": t["by"], "len": 63}
        elif t["sigc"] == "len65":
            sig = {"by": t["by"], "len": 65}
        elif t["sigc"] == "list":
            sig = {"by": t["by"], "as": "l"}
        outer = {"exact": {}, "minus1": {"delta": -1}, "plus1": {"delta": 1}, "string": {"str": True}, "long": {"long": True}}[t["outer"]]
        rec = {"items": t["items"], "sig": sig}
        if outer:
            rec["outer"] = outer
        steps.append({"op": "decode", "kts": gen.KT_ALL, "input": {"rec": rec},
                      "tag": "%s_%s_%s_%s" % (tagp, "valid" if t["valid"] else "invalid", t["sigc"], t["outer"])})
        if len(steps) >= 500:
            scripts.append({"sid": "%s-%d" % (tagp, len(scripts)), "steps": steps})
            steps = []
    if steps:
        scripts.append({"sid": "%s-%d" % (tagp, len(scripts)), "steps": steps})
    return scripts, len(uniq), total


def model_gen(scheme, pairs, classes, limit, seed, wd, emit=True):
    cfg = write_cfg("MC_Gen_%s_%d_%d.cfg" % (scheme, pairs, len(classes)), GEN_CFG % {"pairs": pairs, "scheme": scheme, "classes": ",".join(map(str, classes)),
                                                                 "emit": "TRUE" if emit else "FALSE"})
    res = run.tlc_model(cfg, "MC_Gen.tla", os.path.join(wd, "mc_gen_%s_%d_%d" % (scheme, pairs, len(classes))), workers=8 if emit else 14,
                        capture_prefixes=("SHAPE ",), timeout=5400)
    stats = {"name": "MC_Gen[%s,%d]" % (scheme, pairs), "states": res["states"], "transitions": res["transitions"], "ok": res["ok"],
             "wall_s": round(res["wall_s"], 1), "constants": {"MaxPairs": pairs, "Scheme": scheme, "Classes": classes},
             "tail": "\n".join(res["out"].splitlines()[-25:]) if not res["ok"] else ""}
    scripts, used, total = shape_scripts(res["captured"], limit, seed, "mcg_%s%d" % (scheme, pairs)) if emit else ([], 0, 0)
    stats["shapes_emitted"] = total
    stats["shapes_replayed"] = used
    return {"stats": stats, "scripts": scripts}


def Q(tier, q, t):
    return q if tier == "quick" else t


MODELS = {
    # replayed against the implementation (Emit = TRUE): kept at sizes whose output stays manageable
    "hist_k256": lambda tier, wd, seed=1: model_hist("k256", 2, Q(tier, 1500, 14472), seed, wd),
    "hist_ed": lambda tier, wd, seed=1: model_hist("ed", 2, Q(tier, 800, 15000), seed, wd),
    "hist_comb_secp": lambda tier, wd, seed=1: model_hist("comb_secp", 2, Q(tier, 700, 20000), seed, wd),
    "hist_comb_ed": lambda tier, wd, seed=1: model_hist("comb_ed", 2, Q(tier, 700, 20000), seed, wd),
    "gen_secp": lambda tier, wd, seed=1: model_gen("secp", 2, ALL_CLASSES, Q(tier, 6000, 49770), seed, wd),
    "gen_ed": lambda tier, wd, seed=1: model_gen("ed", 3, CORE_CLASSES, Q(tier, 4000, 60000), seed, wd),
    # thorough only: deeper / wider instances, invariants only (no emission)
    "hist_k256_deep": lambda tier, wd, seed=1: model_hist("k256", 3, 0, seed, wd, emit=False),
    "hist_ed_deep": lambda tier, wd, seed=1: model_hist("ed", 3, 0, seed, wd, emit=False),
    "gen_secp_deep": lambda tier, wd, seed=1: model_gen("secp", 3, ALL_CLASSES, 0, seed, wd, emit=False),
    "gen_ed_deep": lambda tier, wd, seed=1: model_gen("ed", 3, ALL_CLASSES, 0, seed, wd, emit=False),
}


# ------------------------------------------------------------------------------------------ small exhaustive models
def simple_model(tla, cfg_text, name, wd, prefixes=()):
    cfg = write_cfg(name + ".cfg", cfg_text)
    res = run.tlc_model(cfg, tla, os.path.join(wd, "mc_" + name), workers=8, capture_prefixes=prefixes)
    stats = {"name": name, "states": res["states"], "transitions": res["transitions"], "ok": res["ok"], "wall_s": round(res["wall_s"], 1),
             "tail": "\n".join(res["out"].splitlines()[-25:]) if not res["ok"] else ""}
    return stats, res["captured"]


def model_nodeid(tier, wd, seed=1):
    stats, cap = simple_model("MC_NodeId.tla", "SPECIFICATION Spec\nCONSTANTS\n  MaxSlice = 64\n  MaxHex = 70\n  Emit = TRUE\nINVARIANTS Props EmitCase\nCHECK_DEADLOCK FALSE\n",
                              "MC_NodeId", wd, ("CASE ",))
    cases = list(dict.fromkeys(c[5:] for c in cap))
    stats["cases_emitted"] = len(cases)
    # the neighbourhood of the valid length is always replayed; the rest is sampled in the quick tier
    near = [c for c in cases if '"len":6' in c or '"len":3' in c or '"kind":"parse"' in c]
    rest = [c for c in cases if c not in set(near)]
    cases = near + pick(rest, Q(tier, 3000, None), seed)
    stats["cases_replayed"] = len(cases)
    steps = []
    for c in cases:
        t = json.loads(c)
        if t["kind"] == "parse":
            steps.append({"op": "nodeid", "kind": "parse", "bytes": [(i * 5 + 1) % 256 for i in range(t["len"])], "tag": "mc_parse"})
        else:
            steps.append({"op": "nodeid", "kind": "json", "text": t["text"], "tag": "mc_json"})
    return {"stats": stats, "scripts": [{"sid": "mcn-%d" % i, "steps": steps[i:i + 1000]} for i in range(0, len(steps), 1000)]}


def model_key(tier, wd, seed=1):
    stats, cap = simple_model("MC_Key.tla", "SPECIFICATION Spec\nCONSTANTS\n  Emit = TRUE\nINVARIANTS Props EmitCase\nCHECK_DEADLOCK FALSE\n", "MC_Key", wd, ("CASE ",))
    cases = list(dict.fromkeys(c[5:] for c in cap))
    stats["cases_emitted"] = stats["cases_replayed"] = len(cases)
    steps = []
    for c in cases:
        t = json.loads(c)
        for scheme in (("secp", "ed") if t["secp"] else ("ed", "secp")):
            steps.append({"op": "key_import", "scheme": scheme, "bytes": t["bytes"], "tag": "mc_key"})
    return {"stats": stats, "scripts": [{"sid": "mck-0", "steps": steps}]}


def model_text(tier, wd, seed=1):
    n = Q(tier, 5, 6)
    stats, _ = simple_model("MC_Text.tla", "SPECIFICATION Spec\nCONSTANTS\n  MaxBytes = %d\n  MaxChars = %d\nINVARIANTS RoundTrip Injective\nCHECK_DEADLOCK FALSE\n" % (n, n),
                            "MC_Text", wd)
    stats["constants"] = {"MaxBytes": n, "MaxChars": n}
    return {"stats": stats, "scripts": []}


def model_typed(tier, wd, seed=1):
    stats, _ = simple_model("MC_Typed.tla", "SPECIFICATION Spec\nINVARIANTS PortProps ComboProps\nCHECK_DEADLOCK FALSE\n", "MC_Typed", wd)
    return {"stats": stats, "scripts": []}


def model_stream(tier, wd, seed=1):
    s2 = "{0, 1, 127, 128, 183, 184, 192, 247, 248, 255, 256}" if tier == "quick" else "{" + ", ".join(str(i) for i in range(257)) + "}"
    stats, _ = simple_model("MC_Stream.tla", "SPECIFICATION Spec\nCONSTANTS\n  S2 = %s\nINVARIANTS PrefixLocal Sizes\nCHECK_DEADLOCK FALSE\n" % s2, "MC_Stream", wd)
    return {"stats": stats, "scripts": []}


MODELS.update({"nodeid": model_nodeid, "key": model_key, "text": model_text, "typed": model_typed, "stream": model_stream})


# ------------------------------------------------------------------------------------------ MC_Build
BUILD_CFG = """SPECIFICATION Spec
CONSTANTS
  MaxCalls = %(n)d
  KT = "%(kt)s"
  Emit = %(emit)s
  Dev = "%(dev)s"
INVARIANTS BuildProps Commute
ACTION_CONSTRAINT EmitB
CHECK_DEADLOCK FALSE
"""


def model_build(kt, n, limit, seed, wd, dev="none", emit=True):
    cfg = write_cfg("MC_Build_%s_%d_%s.cfg" % (kt, n, dev), BUILD_CFG % {"n": n, "kt": kt, "emit": "TRUE" if emit else "FALSE", "dev": dev})
    res = run.tlc_model(cfg, "MC_Build.tla", os.path.join(wd, "mc_build_%s_%d" % (kt, n)), workers=8, capture_prefixes=("B ",))
    stats = {"name": "MC_Build[%s,%d]" % (kt, n), "states": res["states"], "transitions": res["transitions"], "ok": res["ok"],
             "wall_s": round(res["wall_s"], 1), "constants": {"MaxCalls": n, "KT": kt, "Dev": dev},
             "tail": "\n".join(res["out"].splitlines()[-25:]) if not res["ok"] else ""}
    uniq = list(dict.fromkeys(l[2:] for l in res["captured"]))
    stats["sequences_emitted"] = len(uniq)
    uniq = pick(uniq, limit, seed) if emit else []
    stats["sequences_replayed"] = len(uniq)
    own = "k1" if kt == "k256" else "e1"
    kts = ["k256", "libsecp", "comb"] if kt == "k256" else ["ed", "comb"]
    steps = []
    for n_, body in enumerate(uniq):
        t = json.loads(body)
        k = kts[n_ % len(kts)]
        steps.append({"op": "build", "h": "b", "kt": k, "signer": own, "calls": t["calls"], "obs": "full" if n_ % 5 == 0 else "core",
                      "rebuild": n_ % 4 == 1, "calls2": []})
    scripts = [{"sid": "mcb-%s-%d" % (kt, i), "steps": steps[i:i + 400]} for i in range(0, len(steps), 400)]
    return {"stats": stats, "scripts": scripts}


MODELS.update({
    "build_k256": lambda tier, wd, seed=1: model_build("k256", 3, Q(tier, 1500, 18278), seed, wd),
    "build_ed": lambda tier, wd, seed=1: model_build("ed", Q(tier, 2, 3), Q(tier, 703, 18278), seed, wd),
})


# ------------------------------------------------------------------------------------------ simulation of long behaviours
def model_hist_sim(tier, wd, seed=1):
    """random behaviours of MC_Hist far beyond the exhaustive depth (TLC -simulate), invariants and action properties on every step"""
    depth, num = (12, 400) if tier == "quick" else (25, 2500)
    cfg = write_cfg("MC_Hist_sim.cfg", HIST_CFG % {"depth": depth, "kt": "comb_ed", "dev": "none", "emit": "FALSE"})
    res = run.tlc_model(cfg, "MC_Hist.tla", os.path.join(wd, "mc_hist_sim"), workers=8, timeout=3600,
                        extra_args=["-simulate", "num=%d" % num, "-depth", str(depth + 2), "-seed", str(seed)])
    ok = res["rc"] == 0 and "Error" not in res["out"]
    import re
    m = re.search(r"(\d+) states checked", res["out"].replace(",", ""))
    n = int(m.group(1)) if m else num * depth
    stats = {"name": "MC_Hist[comb_ed] simulation", "states": n, "transitions": n, "ok": ok, "wall_s": round(res["wall_s"], 1),
             "constants": {"MaxDepth": depth, "behaviours": num}, "tail": "\n".join(res["out"].splitlines()[-25:]) if not ok else ""}
    return {"stats": stats, "scripts": []}


MODELS.update({"hist_sim": model_hist_sim})


def model_rlp(tier, wd, seed=1):
    n = Q(tier, 400, 1400)
    stats, _ = simple_model("MC_Rlp.tla", "SPECIFICATION Spec\nCONSTANTS\n  MaxLen = %d\nINVARIANTS RoundTrip Prefixes NonCanonical Split\nCHECK_DEADLOCK FALSE\n" % n, "MC_Rlp", wd)
    stats["constants"] = {"MaxLen": n}
    return {"stats": stats, "scripts": []}


MODELS.update({"rlp": model_rlp})
