"""./check selftest -- demonstrates that the specification is bound to the implementation and that its
invariants are not vacuous:
  1. corruption: a freshly recorded conforming trace is corrupted one field at a time; TLC must reject each
     corrupted trace at that event, naming the expected property;
  2. deviations: MC_Hist with each named deviation (what the code did before the fix: commits) must violate an invariant;
  3. the bounded models must hold without deviation."""
import copy, json, os, random, sys
from . import run, gen, props, mc
from .run import log


def corruptions():
    """(name, event selector, mutate(event), expected property)"""
    def post(ev):
        return ev["tab"][ev["post"] - 1]

    def c_seq(ev):
        p = post(ev)
        p["seq"] = (p["seq"][:-1] + [(p["seq"][-1] + 1) % 256]) if p["seq"] else [9]

    def c_pair(ev):
        p = post(ev)
        p["pairs"][0][1][-1] ^= 1

    def c_err(ev):
        ev["out"] = {"kind": "err", "err": "ExceedsMaxSize", "ret": []}

    def c_nid(ev):
        post(ev)["nid"][0] ^= 0x80

    def c_size(ev):
        post(ev)["size"] += 1

    def c_verify(ev):
        post(ev)["verify"] = [False]

    def c_tcp(ev):
        ev["ext"][0]["tcp4"] = [81]

    def c_text(ev):
        ev["ext"][0]["text"][10] = ord("A") if ev["ext"][0]["text"][10] != ord("A") else ord("B")

    def c_ret(ev):
        ev["out"]["ret"] = [[1, 2, 3]]

    def c_sig(ev):
        post(ev)["sig"][5] ^= 1

    def c_accept(ev):
        ev["res"][0] = {"kind": "err", "rest": 0, "core": 0}

    def c_reject(ev):
        ev["res"][0] = {"kind": "ok", "rest": 0, "core": 1}
        ev["tab"] = [copy.deepcopy(ev["_donor"])]

    is_ok_call = lambda ev: ev["t"] == "call" and ev["out"]["kind"] == "ok"
    return [
        ("post.seq", is_ok_call, c_seq, "C07"),
        ("post.pairs byte", is_ok_call, c_pair, "C08"),
        ("out -> err", is_ok_call, c_err, "C06"),
        ("post.nid", is_ok_call, c_nid, "C10"),
        ("post.size", is_ok_call, c_size, "C09"),
        ("post.verify", is_ok_call, c_verify, "C05"),
        ("post.sig byte", is_ok_call, c_sig, "C04"),
        ("return value", lambda ev: is_ok_call(ev) and ev["m"] == "set_tcp4", c_ret, "C08"),
        ("typed tcp4", lambda ev: is_ok_call(ev) and ev["ext"] and ev["m"] == "set_tcp4", c_tcp, "C14"),
        ("text form", lambda ev: is_ok_call(ev) and ev["ext"], c_text, "C12"),
        ("valid decode reported as error", lambda ev: ev["t"] == "decode" and ev["tag"] == "valid", c_accept, "C02"),
    ]


def main():
    run.build_harness()
    props.load_keys()
    wd = run.workdir("selftest-%d" % os.getpid())
    failures = 0
    # ---- 1. corruption
    scripts = [{"sid": "st-1", "obs": "full", "steps": [
        {"op": "build", "h": "r", "kt": "k256", "signer": "k1", "calls": [{"m": "ip4", "ip": [10, 0, 0, 1]}, {"m": "udp4", "port": 30303}]},
        {"op": "call", "h": "r", "m": "set_tcp4", "args": {"port": 80}, "signer": "k1"},
        {"op": "call", "h": "r", "m": "set_tcp4", "args": {"port": 8080}, "signer": "k1"},
        {"op": "call", "h": "r", "m": "insert", "args": {"key": gen.B("x"), "val": {"ty": "bytes", "v": [1, 2]}}, "signer": "k1"},
        {"op": "call", "h": "r", "m": "remove_key", "args": {"key": gen.B("x")}, "signer": "k1"},
        {"op": "decode", "kts": gen.KT_ALL, "input": {"rec": {"seq": [1], "pairs": gen.rand_pairs(random.Random(1), "k1"), "sig": {"by": "k1"}}}, "tag": "valid"},
    ]}]
    files, _ = run.exec_scripts(scripts, wd)
    n, bads = run.validate_traces(files, wd)
    if bads:
        print("selftest: the uncorrupted trace is not accepted:", bads)
        return 1
    events = [json.loads(l) for l in open(files[0][1])]
    for name, sel, mut, prop in corruptions():
        idx = next((i for i, ev in enumerate(events) if sel(ev)), None)
        if idx is None:
            print("selftest: no event for corruption", name)
            failures += 1
            continue
        evs = copy.deepcopy(events)
        mut(evs[idx])
        tf = os.path.join(wd, "corrupt.ndjson")
        with open(tf, "w") as f:
            for ev in evs:
                f.write(json.dumps(ev) + "\n")
        n, bad = run.tlc_trace(tf, os.path.join(wd, "meta-c"))
        hit = [b for b in bad if b["l"] == idx + 1 and any(f["p"] == prop for f in b["fails"])]
        print("corruption %-32s -> %s" % (name, "rejected at event %d (%s)" % (idx + 1, prop) if hit else "NOT DETECTED: %s" % bad))
        if not hit:
            failures += 1
    # dropping an event: the following update no longer matches its pre-state
    evs = [ev for i, ev in enumerate(events) if i != 2]
    tf = os.path.join(wd, "dropped.ndjson")
    with open(tf, "w") as f:
        for ev in evs:
            f.write(json.dumps(ev) + "\n")
    n, bad = run.tlc_trace(tf, os.path.join(wd, "meta-d"))
    hit = any(f["p"] in ("C07", "C08") for b in bad for f in b["fails"])
    print("corruption %-32s -> %s" % ("dropped event", "rejected" if hit else "NOT DETECTED"))
    failures += 0 if hit else 1
    # ---- 2./3. bounded models with and without deviations
    for dev, expect in [("none", True), ("InsertInPlace", False), ("SetSeqKeepsPk", False), ("RawUnchecked", False), ("RemoveInsertUnchecked", False)]:
        r = mc.model_hist("k256", 2, 0, 1, wd, dev=dev, emit=False)
        ok = r["stats"]["ok"]
        print("MC_Hist Dev=%-22s -> %s (%d states)" % (dev, "holds" if ok else "violated", r["stats"]["states"]))
        if ok != expect:
            failures += 1
    for kt, dev, expect in [("comb_secp", "none", True), ("comb_ed", "none", True), ("comb_secp", "NoShadowCheck", False)]:
        r = mc.model_hist(kt, 2, 0, 1, wd, dev=dev, emit=False)
        ok = r["stats"]["ok"]
        print("MC_Hist[%s] Dev=%-14s -> %s (%d states)" % (kt, dev, "holds" if ok else "violated", r["stats"]["states"]))
        if ok != expect:
            failures += 1
    for dev, expect in [("none", True), ("BuilderUnchecked", False)]:
        r = mc.model_build("k256", 3, 0, 1, wd, dev=dev, emit=False)
        ok = r["stats"]["ok"]
        print("MC_Build Dev=%-20s -> %s (%d states)" % (dev, "holds" if ok else "violated", r["stats"]["states"]))
        if ok != expect:
            failures += 1
    r = mc.model_gen("secp", 2, mc.ALL_CLASSES, 0, 1, wd, emit=False)
    print("MC_Gen                         -> %s (%d states)" % ("holds" if r["stats"]["ok"] else "violated", r["stats"]["states"]))
    failures += 0 if r["stats"]["ok"] else 1
    from . import proofs
    if proofs.main() != 0:
        failures += 1
    print("selftest: %s" % ("ok" if failures == 0 else "%d FAILURE(S)" % failures))
    return 0 if failures == 0 else 1
