#!/usr/bin/env python3
"""Development tool: apply every seeded change in turn to /repo, run the quick check of the property it breaks, undo.
Writes seeded/REGRESSION.json: which checks reported which change."""
import json, os, subprocess, sys, glob, time
sys.path.insert(0, os.path.dirname(os.path.abspath(__file__)))
import mutest

OUT = os.environ.get('REGRESS_OUT', '/verif/seeded/REGRESSION.json')
# REGRESS_PART=i/n: only every n-th change starting at i (parallel development lanes)
out = json.load(open(OUT)) if (len(sys.argv) > 1 and os.path.exists(OUT)) else {}
SEEDED = os.path.join(mutest.VERIF, "seeded")
ids = sorted(d for d in os.listdir(SEEDED) if os.path.exists(os.path.join(SEEDED, d, "meta.json")))
only = sys.argv[1:]
if os.environ.get("REGRESS_PART"):
    pi, pn = (int(x) for x in os.environ["REGRESS_PART"].split("/"))
    ids = [x for j, x in enumerate(ids) if j % pn == pi]
for i in ids:
    if only and i not in only:
        continue
    meta = json.load(open(os.path.join(SEEDED, i, "meta.json")))
    pids = meta["breaks"].split()[:1]
    t = time.time()
    try:
        r = mutest.detect(os.path.join(SEEDED, i), pids)
    except AssertionError as e:
        r = {pids[0]: {"rc": -1, "lines": ["ERROR " + str(e)[:200]]}}
    res = r[pids[0]]
    det = res["rc"] == 1 and any(l.startswith("VIOLATION property=%s" % pids[0]) for l in res["lines"])
    out[i] = {"property": pids[0], "detected": det, "rc": res["rc"], "first_line": (res["lines"] or [""])[0][:160], "wall_s": round(time.time() - t)}
    print(i, "DETECTED" if det else "MISSED", out[i]["first_line"], flush=True)
    json.dump(out, open(OUT, "w"), indent=1)
print("detected %d of %d" % (sum(1 for v in out.values() if v["detected"]), len(out)))
