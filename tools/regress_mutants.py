#!/usr/bin/env python3
"""Development tool: apply every seeded change in turn to /repo, run the quick check of the property it breaks, undo.
Writes seeded/REGRESSION.json: which checks reported which change."""
import json, os, subprocess, sys, glob, time
sys.path.insert(0, os.path.dirname(os.path.abspath(__file__)))
import mutest

OUT = os.environ.get('REGRESS_OUT', '/verif/seeded/REGRESSION.json')
out = json.load(open(OUT)) if (len(sys.argv) > 1 and os.path.exists(OUT)) else {}
ids = sorted(d for d in os.listdir("/verif/seeded") if os.path.exists("/verif/seeded/%s/meta.json" % d))
only = sys.argv[1:]
for i in ids:
    if only and i not in only:
        continue
    meta = json.load(open("/verif/seeded/%s/meta.json" % i))
    pids = meta["breaks"].split()[:1]
    t = time.time()
    try:
        r = mutest.detect("/verif/seeded/" + i, pids)
    except AssertionError as e:
        r = {pids[0]: {"rc": -1, "lines": ["ERROR " + str(e)[:200]]}}
    res = r[pids[0]]
    det = res["rc"] == 1 and any(l.startswith("VIOLATION property=%s" % pids[0]) for l in res["lines"])
    out[i] = {"property": pids[0], "detected": det, "rc": res["rc"], "first_line": (res["lines"] or [""])[0][:160], "wall_s": round(time.time() - t)}
    print(i, "DETECTED" if det else "MISSED", out[i]["first_line"], flush=True)
    json.dump(out, open(OUT, "w"), indent=1)
print("detected %d of %d" % (sum(1 for v in out.values() if v["detected"]), len(out)))
