#!/bin/bash
# For every fix: commit in /repo: revert it in the working tree (no commit), run the checks of the properties it was
# recorded for, restore. Each revert is a realistic breaking change; every one must be detected.
cd /repo
git status --porcelain | grep -q . && { echo "/repo not clean"; exit 2; }
declare -A PROPS=( [0b39ed8]="C16" [c3fe8c8]="C12" [e1020f0]="C13" [7ef2a37]="C08" [c846af0]="C08" [91f60cc]="C05 C03" [42d26dd]="C06 C05 C09" [e05d293]="C05 C10" [cfe3e04]="C05 C08" [b10bc00]="C05" [042a8ea]="C05" )
for c in 0b39ed8 c3fe8c8 e1020f0 7ef2a37 c846af0 91f60cc 42d26dd e05d293 cfe3e04 b10bc00 042a8ea; do
  echo "=== revert $c: $(git log --format=%s -1 $c)"
  if ! git revert --no-commit $c >/dev/null 2>&1; then echo "  (revert conflicts; skipped)"; git revert --abort 2>/dev/null; git checkout -- . ; continue; fi
  git reset -q
  for p in ${PROPS[$c]}; do
    (cd /verif && ./check $p --tier quick 2>&1 | grep -E '^(VIOLATION|OK|TOOL|KNOWN)' | head -3 | sed "s/^/  [$p] /")
  done
  git checkout -- .
done
git status --porcelain
