#!/usr/bin/env python3
"""Development tool: confirm a seeded breaking change and measure which checks detect it.
   mutest.py confirm <mutdir> [features]    -> scratch worktree: existing tests pass with the patch, demo fails with / passes without
   mutest.py detect  <mutdir> <Cxx> [...]   -> git apply in /repo, run ./check Cxx --tier quick, undo
   mutest.py benign  <dir>                  -> a change claimed to keep every property: suite passes (both feature sets), then
                                               all 17 quick checks with it applied; any VIOLATION must be explained
A <mutdir> holds patch.diff and demo.rs."""
import os, subprocess, sys, shutil, json, time

REPO = os.environ.get("VERIF_REPO", "/repo")          # development lanes may point these elsewhere
VERIF = os.environ.get("VERIF_DIR", "/verif")
SCR = os.environ.get("VERIF_SCR", "/tmp/mv")


def sh(cmd, cwd=None, env=None, timeout=3600):
    p = subprocess.run(cmd, shell=True, cwd=cwd, env=env, stdout=subprocess.PIPE, stderr=subprocess.STDOUT, text=True, timeout=timeout)
    return p.returncode, p.stdout


def confirm(mutdir, features=""):
    name = os.path.basename(os.path.dirname(mutdir.rstrip("/"))) + "_" + os.path.basename(mutdir.rstrip("/"))
    wt = os.path.join(SCR, name)
    os.makedirs(SCR, exist_ok=True)
    sh("git -C %s worktree remove --force %s" % (REPO, wt))
    rc, out = sh("git -C %s worktree add -q --detach %s HEAD" % (REPO, wt))
    assert rc == 0, out
    env = dict(os.environ, CARGO_TARGET_DIR=os.path.join(SCR, "target"), CARGO_NET_OFFLINE="true")
    if features.startswith("cfg="):
        env["RUSTFLAGS"] = "--cfg " + features[4:]
        features = ""
    feat = ("--features " + features) if features else ""
    res = {}
    try:
        rc, out = sh("git apply %s" % os.path.join(mutdir, "patch.diff"), cwd=wt)
        res["applies"] = rc == 0
        if rc != 0:
            res["apply_out"] = out[-500:]
            return res
        rc, out = sh("cargo test --offline 2>&1 | grep -E 'test result|FAILED|error(\\[|:)'", cwd=wt, env=env)
        res["suite_with_patch"] = out.strip().splitlines()
        res["suite_passes"] = ("FAILED" not in out) and ("error" not in out) and ("38 passed" in out)
        rc, out = sh("cargo build --offline --features rust-secp256k1,ed25519 2>&1 | tail -3", cwd=wt, env=env)
        res["builds_all_features"] = "error" not in out
        shutil.copy(os.path.join(mutdir, "demo.rs"), os.path.join(wt, "tests", "demo_x.rs"))
        rc, out = sh("cargo test --offline %s --test demo_x 2>&1 | tail -25" % feat, cwd=wt, env=env)
        res["demo_fails_with_patch"] = "test result: FAILED" in out or "panicked" in out
        res["demo_with_patch_tail"] = out[-600:]
        sh("git checkout -- src Cargo.toml", cwd=wt)
        rc, out = sh("cargo test --offline %s --test demo_x 2>&1 | tail -8" % feat, cwd=wt, env=env)
        res["demo_passes_without_patch"] = "test result: ok" in out and "FAILED" not in out
        res["demo_without_patch_tail"] = out[-300:]
    finally:
        sh("git -C %s worktree remove --force %s" % (REPO, wt))
    return res


def detect(mutdir, pids, tier="quick"):
    rc, out = sh("git -C %s status --porcelain" % REPO)
    assert out.strip() == "", "/repo is not clean: " + out
    rc, out = sh("git -C %s apply %s" % (REPO, os.path.join(mutdir, "patch.diff")))
    assert rc == 0, out
    res = {}
    try:
        for pid in pids:
            t = time.time()
            rc, out = sh("./check %s --tier %s" % (pid, tier), cwd=VERIF)
            lines = [l for l in out.splitlines() if l.startswith("VIOLATION") or l.startswith("OK ") or l.startswith("TOOL-ERROR") or l.startswith("KNOWN")]
            res[pid] = {"rc": rc, "wall": round(time.time() - t, 1), "lines": lines[:6]}
    finally:
        sh("git -C %s checkout -- ." % REPO)
    return res


def benign(mutdir, pids=None):
    name = "ben_" + os.path.basename(mutdir.rstrip("/"))
    wt = os.path.join(SCR, name)
    os.makedirs(SCR, exist_ok=True)
    sh("git -C %s worktree remove --force %s" % (REPO, wt))
    rc, out = sh("git -C %s worktree add -q --detach %s HEAD" % (REPO, wt))
    assert rc == 0, out
    env = dict(os.environ, CARGO_TARGET_DIR=os.path.join(SCR, "target"), CARGO_NET_OFFLINE="true")
    res = {}
    try:
        rc, out = sh("git apply %s" % os.path.join(mutdir, "patch.diff"), cwd=wt)
        res["applies"] = rc == 0
        if rc != 0:
            res["apply_out"] = out[-500:]
            return res
        rc, out = sh("cargo test --offline 2>&1 | grep -E 'test result|FAILED|error(\\[|:)'", cwd=wt, env=env)
        res["suite_passes"] = ("FAILED" not in out) and ("error" not in out) and ("38 passed" in out)
        rc, out = sh("cargo test --offline --features rust-secp256k1,ed25519 2>&1 | grep -E 'test result|FAILED|error(\\[|:)'", cwd=wt, env=env)
        res["suite_passes_all_features"] = ("FAILED" not in out) and ("error" not in out)
    finally:
        sh("git -C %s worktree remove --force %s" % (REPO, wt))
    if res["suite_passes"] and res["suite_passes_all_features"]:
        d = detect(mutdir, pids or ["C%02d" % i for i in range(1, 18)])
        res["alarms"] = {p: v["lines"] for p, v in d.items() if v["rc"] != 0}
        res["silent"] = sorted(p for p, v in d.items() if v["rc"] == 0)
    return res


if __name__ == "__main__":
    cmd = sys.argv[1]
    if cmd == "confirm":
        print(json.dumps(confirm(sys.argv[2], sys.argv[3] if len(sys.argv) > 3 else ""), indent=1))
    elif cmd == "benign":
        print(json.dumps(benign(sys.argv[2], sys.argv[3:]), indent=1))
    elif cmd == "detect":
        print(json.dumps(detect(sys.argv[2], sys.argv[3:]), indent=1))
